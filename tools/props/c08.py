"""C08 -- a peer counts as authenticated only after a valid SASL exchange.

Leg 1 (in-process): harness/c/auth_h.c drives a real DBusAuth server object; the extracted Coq model
(coq/Auth/Server.v) is run on the same concrete bytes with the environment the implementation saw
(random challenges, keyring contents); outputs after every step, end state, identity and unused bytes are diffed.
Leg 2 (daemon): raw sockets against the running dbus-daemon (transport admission, no message before BEGIN).
The extracted specification (coq/Spec/AuthSpec.v) is evaluated on every case as the oracle."""
import glob, hashlib, itertools, json, os, random, re, shutil, subprocess, sys, time
import vlib

HARNESSES = ("auth_h",)
MLS = ("auth",)
THEOREMS = ["C08_do_work_total", "C08_identity_invariant", "C08_authenticated_only_after_valid_exchange", "C08_no_data_before_begin",
            "C08_bounded_rejections", "C08_buffer_bound", "C08_transport_gate", "C08_anonymous_only_if_enabled",
            "C08_responses_partial", "C08_responses_partial_run", "C08_responses_refuted_odd_hex", "C08_skip_blank_never_aborts",
            "C08_keyring_line_sound", "C08_keyring_line_complete", "C08_keyring_line_refuted", "C08_keyring_context",
            "C08_cookie_only_from_keyring", "C08_announced_key_recent", "C08_no_origin_no_cookie", "C08_chunking_independent", "C08_handshake_boundary"]

PUID = os.getuid()
DEFAULT_CTX = b"org_freedesktop_general"
GUID = b"feedfacefeedfacefeedfacefeedface"


def hx(b):
    return bytes(b).hex() if len(b) else "-"


def unhx(s):
    return b"" if s in ("-", "") else bytes.fromhex(s)


def passwd_users():
    out = {}
    try:
        for l in open("/etc/passwd"):
            f = l.split(":")
            if len(f) > 2 and f[0] and f[0] not in out:
                out[f[0]] = int(f[2])
    except OSError:
        pass
    return out


USERS = passwd_users()


# ---------------------------------------------------------------------------
# cases
# ---------------------------------------------------------------------------
def mk_case(steps, uid=0, pid=4242, gids=None, mechs="*", fdp=1, ctx=None, keys=(), kdir="ok", tag=""):
    return {"uid": uid, "pid": pid, "gids": gids, "mechs": mechs, "fdp": fdp, "ctx": ctx, "keys": list(keys), "kdir": kdir,
            "steps": list(steps), "tag": tag}


def step_str(s):
    if s[0] == "F":
        return "F" + hx(s[1])
    if s[0] == "S":
        return "S*" if s[1] is None else "S%d" % s[1]
    if s[0] == "R":
        return "R%s:%s:%s:%s" % (hx(s[1]), hx(s[2]), s[3], s[4] if s[4] else "-")
    raise ValueError(s)


def env_str(c):
    return "uid=%s pid=%s gids=%s mechs=%s fdp=%d" % (
        "-" if c["uid"] is None else c["uid"], "-" if c["pid"] is None else c["pid"],
        "-" if not c["gids"] else ".".join(str(g) for g in c["gids"]), c["mechs"], c["fdp"])


def eff_ctx(c):
    """context the server ends up with: _dbus_auth_set_context overwrites only a prefix of the default one"""
    return DEFAULT_CTX if c["ctx"] is None else c["ctx"] + DEFAULT_CTX[len(c["ctx"]):]


def key_items(c):
    """keyring file items of a case: ("K", idtext, age, secrettext, sep, timeprefix) or ("R", rawline); `keys` triples are shorthand"""
    its = [("K", str(i).encode(), age, sec.encode(), b" ", b"") for (i, age, sec) in c.get("keys", [])]
    return its + list(c.get("items", []))


def item_str(it):
    if it[0] == "R":
        return "R" + hx(it[1])
    return "K%s,%d,%s,%s,%s" % (hx(it[1]), it[2], hx(it[3]), hx(it[4]), hx(it[5]))


def item_line(it, now):
    """the line the harness writes for an item when its clock says `now`"""
    if it[0] == "R":
        return it[1]
    return it[1] + it[4] + it[5] + str(now - it[2]).encode() + it[4] + it[3]


def file_writable(ctx, kdir):
    return kdir != "none" and b"/" not in ctx and len(ctx) > 0


def world_str(items, ctx, kdir, now, keyfile):
    """environment of the keyring model: clock, file lines as written, directory state, keys the server created (read back from the file)"""
    lines = [item_line(it, now) for it in items] if file_writable(ctx, kdir) else []
    initial = set(it[3].decode("latin-1").lower() for it in items if it[0] == "K")
    newkeys = []
    if keyfile not in (None, "-"):
        for ent in keyfile.split("/"):
            f = ent.split(":")
            if len(f) == 3 and f[2].lower() not in initial and re.fullmatch(r"[0-9a-f]{48}", f[2]):
                newkeys.append("%s:%s" % (f[0], f[2]))
    return "now=%d file=%s dirp0=%d dirp=%d newkeys=%s" % (
        now, "/".join(hx(l) if l else "_" for l in lines) or "-", 1 if kdir == "ok" else 0, 0 if kdir == "bad" else 1, "/".join(newkeys) or "-")


def impl_line(c):
    keys = "/".join(item_str(it) for it in key_items(c)) or "-"
    return "auth %s ctx=%s keyitems=%s kdir=%s steps=%s" % (env_str(c), "-" if c["ctx"] is None else hx(c["ctx"]), keys, c["kdir"], ",".join(step_str(s) for s in c["steps"]))


def parse_impl(res):
    """-> dict(steps=[(rc, outhex)], fed=[hex of R lines], end=dict) or None if malformed"""
    toks = res.split()
    out = {"steps": [], "fed": [], "end": None, "raw": res}
    i = 0
    while i < len(toks):
        t = toks[i]
        if t == "end":
            e = {"rc": toks[i + 1] if i + 1 < len(toks) else "?"}
            for kv in toks[i + 2:]:
                if "=" in kv:
                    k, v = kv.split("=", 1)
                    e[k] = v
            out["end"] = e
            break
        if t.startswith("@"):
            out["fed"].append(t[1:])
        elif len(t) >= 2 and t[1] == ":":
            out["steps"].append((t[0], t[2:]))
        else:
            out["steps"].append(("?", t))
        i += 1
    return out


def produced_output(c, p):
    """all bytes the implementation ever appended to its outgoing buffer, in order"""
    prev = b""
    total = b""
    k = 0
    for s in c["steps"]:
        if k >= len(p["steps"]):
            break
        now = unhx(p["steps"][k][1])
        k += 1
        if s[0] == "S":
            n = len(prev) if s[1] is None else min(len(prev), s[1])
            prev = prev[n:]
        total += now[len(prev):]
        prev = now
    return total


def challenges(total):
    """(id, challenge hex text) of every non-empty DATA line the server sent that looks like a cookie challenge"""
    out = []
    for line in total.split(b"\r\n"):
        if line.startswith(b"DATA ") and len(line) > 5:
            try:
                d = bytes.fromhex(line[5:].decode())
            except ValueError:
                continue
            f = d.split(b" ")
            if len(f) == 3 and f[1].isdigit():
                out.append((int(f[1]), f[2].decode("latin-1"), f[0]))
    return out


def model_line(c, p, asserts):
    ctx = eff_ctx(c)
    steps, fed = [], list(p["fed"])
    for s in c["steps"]:
        if s[0] == "R":
            steps.append("F" + (fed.pop(0) if fed else ""))
        else:
            steps.append(step_str(s))
    ch = challenges(produced_output(c, p))
    end = p["end"] or {}
    now = int(end.get("now", 0)) or int(time.time())
    users = "/".join("%s:%d" % (n.encode().hex(), u) for n, u in sorted(USERS.items())) or "-"
    return ("authm %s ctx=%s puid=%d users=%s %s chals=%s asserts=%d steps=%s" % (
        env_str(c), hx(ctx), PUID, users, world_str(key_items(c), ctx, c["kdir"], now, end.get("keyfile", "-")),
        "/".join(h for (_, h, _) in ch) or "-", asserts, ",".join(steps))), ch, {}


# ---------------------------------------------------------------------------
# generators
# ---------------------------------------------------------------------------
def L(s):
    return s if isinstance(s, bytes) else s.encode("latin-1")


def h(s):
    return L(s).hex().encode()


def per_line(lines, drain=True):
    st = []
    for l in lines:
        if isinstance(l, tuple):
            st.append(l)
        else:
            st.append(("F", L(l) + b"\r\n"))
        if drain:
            st.append(("S", None))
    return st


R_OK = ("R", b" ", b"cc", "ok", None)
FRESH = [(7, 10, "00112233445566778899aabbccddeeff")]
ENVS = [
    dict(uid=0, mechs="*", fdp=1, keys=FRESH),
    dict(uid=1000, mechs="*", fdp=0, keys=FRESH),
    dict(uid=None, mechs="*", fdp=1, keys=FRESH, pid=None),
    dict(uid=0, mechs="EXTERNAL", fdp=1, gids=[5, 6]),
    dict(uid=0, mechs="ANONYMOUS.DBUS_COOKIE_SHA1", fdp=0, keys=FRESH),
]


def alphabet(uid):
    u = h(str(0 if uid is None else uid))
    other = h("1000" if uid != 1000 else "0")
    return [b"AUTH", b"AUTH EXTERNAL", b"AUTH EXTERNAL " + u, b"AUTH EXTERNAL " + other, b"AUTH ANONYMOUS",
            b"AUTH DBUS_COOKIE_SHA1 " + h(str(PUID)), b"AUTH BOGUS", b"DATA", b"DATA " + u, b"DATA zz", b"CANCEL", b"ERROR",
            b"BEGIN", b"NEGOTIATE_UNIX_FD", b"JUNK", R_OK]


def gen_exhaustive(tier):
    cases = []
    maxlen = 3 if tier == "quick" else 4
    for ei, env in enumerate(ENVS):
        al = alphabet(env.get("uid"))
        for n in range(1, maxlen + 1):
            if tier == "quick" and n == 3 and ei >= 3:
                continue
            for seq in itertools.product(al, repeat=n):
                # nothing is processed after BEGIN; skip sequences that only differ after the first BEGIN
                if b"BEGIN" in seq[:-1]:
                    continue
                cases.append(mk_case(per_line(seq), tag="exh", **env))
    return cases


UIDSTRS = [b"0", b"00", b"010", b"0x0", b"0X0", b" 0", b"+0", b"-0", b"-1", b"18446744073709551615", b"18446744073709551616",
           b"4294967296", b"0x", b"0b0", b"1e3", b"0 ", b"\t0", b"\n0", b"0\x00", b"", b"0x10", b"16", b"020", b"1000", b"01750",
           b"0x3e8", b"0x3E8", b"-18446744073709550616", b"1000 ", b"root", b"+", b"-", b"0x-1", b" +1000", b"\x0b\x0c\r1000",
           b"99999999999999999999999999", b"-99999999999999999999999999", b"08", b"0778", b"0xg", b"1000\xc3\xa9", b"\xff"]


def gen_identity(rnd, tier):
    cases = []
    for uid in (0, 1000, 16, 8, None):
        for s in UIDSTRS:
            cases.append(mk_case(per_line([b"AUTH EXTERNAL " + h(s), b"BEGIN"]), uid=uid, tag="uidstr"))
            cases.append(mk_case(per_line([b"AUTH EXTERNAL", b"DATA " + h(s), b"BEGIN"]), uid=uid, tag="uidstr"))
    for s in UIDSTRS + [b"root", b"daemon", b"nosuchuser_c08", b"Root"]:
        cases.append(mk_case(per_line([b"AUTH DBUS_COOKIE_SHA1 " + h(s), R_OK, b"BEGIN"]), keys=FRESH, tag="cookieuser"))
        cases.append(mk_case(per_line([b"AUTH DBUS_COOKIE_SHA1", b"DATA " + h(s), R_OK, b"BEGIN"]), keys=FRESH, tag="cookieuser"))
    # odd-length / mixed-case / malformed hex arguments
    for arg in (b"3", b"303", b"3 ", b"30 ", b"3g", b"g", b"3\x00", b"0x30", b"30 30", b"3030", b"3A", b"3a", b"3a3", b"aB"):
        for pre in ([], [b"AUTH EXTERNAL"]):
            cmd = b"DATA " if pre else b"AUTH EXTERNAL "
            for uid in (0, 10):
                cases.append(mk_case(per_line(pre + [cmd + arg, b"BEGIN"]), uid=uid, tag="hexarg"))
    # ANONYMOUS trace strings
    for t in (b"", b"a", b"a@b", b"\xc3\xa9", b"\xc3", b"\xff", b"\xed\xa0\x80", b"\x00", b"a\x00b", b"\xf4\x8f\xbf\xbf", b"\xf4\x90\x80\x80"):
        cases.append(mk_case(per_line([b"AUTH ANONYMOUS " + h(t), b"BEGIN"]), tag="anon"))
        cases.append(mk_case(per_line([b"AUTH ANONYMOUS " + h(t), b"BEGIN"]), mechs="EXTERNAL", tag="anon"))
    return cases


COOKIE_MODES = ["ok", "flip", "upper", "trunc", "empty", "schal0"]


def gen_cookie(rnd, tier):
    cases = []
    me = h(str(PUID))
    keysets = {
        "fresh": FRESH,
        "none": [],
        "stale": [(3, 330, "aa" * 16)],                      # too old for new challenges, still loaded -> server adds a key
        "expired": [(4, 500, "bb" * 16)],                    # dropped on load
        "future": [(5, -400, "cc" * 16)],                    # too far in the future: dropped
        "two": [(8, 350, "dd" * 16), (9, 20, "ee" * 16)],
        "dupid": [(9, 20, "ee" * 16), (9, 25, "ff" * 16)],
    }
    for kname, keys in keysets.items():
        for kdir in ("ok", "bad", "none"):
            for mode in COOKIE_MODES:
                for sep in (b" ", b"\t", b"  ", b""):
                    if tier == "quick" and kdir != "ok" and (mode not in ("ok", "flip") or sep != b" "):
                        continue
                    cases.append(mk_case(per_line([b"AUTH DBUS_COOKIE_SHA1 " + me, ("R", sep, b"clientchal", mode, None), b"BEGIN"]),
                                         keys=keys, kdir=kdir, tag="cookie-" + kname))
            # wrong cookie: a different key's secret, an expired one, another context's
            for ck in ("aa" * 16, "bb" * 16, "00112233445566778899aabbccddeefe", "00"):
                cases.append(mk_case(per_line([b"AUTH DBUS_COOKIE_SHA1 " + me, ("R", b" ", b"x", "ok", ck), b"BEGIN"]),
                                     keys=keys, kdir=kdir, tag="cookie-wrongsecret"))
    # context handling
    for ctx in (b"myctx", b"a/b", b"a.b", b"a b", b"", b"x" * 23, b"\xc3\xa9"):
        if ctx == b"":
            continue
        cases.append(mk_case(per_line([b"AUTH DBUS_COOKIE_SHA1 " + me, R_OK, b"BEGIN"]), ctx=ctx, keys=FRESH, tag="cookie-ctx"))
    # client challenge shapes, retries after a rejection, OK then CANCEL then another mechanism
    for ccs in (b"", b"a", b"a b", b"\x00", b"\xff" * 5, b"c" * 300):
        cases.append(mk_case(per_line([b"AUTH DBUS_COOKIE_SHA1 " + me, ("R", b" ", ccs, "ok", None), b"BEGIN"]), keys=FRESH, tag="cookie-cc"))
    seqs = [
        [b"AUTH DBUS_COOKIE_SHA1 " + me, ("R", b" ", b"c", "flip", None), b"AUTH DBUS_COOKIE_SHA1 " + me, R_OK, b"BEGIN"],
        [b"AUTH DBUS_COOKIE_SHA1 " + me, R_OK, b"CANCEL", b"AUTH ANONYMOUS", b"BEGIN"],
        [b"AUTH DBUS_COOKIE_SHA1 " + me, R_OK, b"ERROR", b"AUTH EXTERNAL " + h("0"), b"BEGIN"],
        [b"AUTH EXTERNAL " + h("0"), b"CANCEL", b"AUTH ANONYMOUS", b"BEGIN"],
        [b"AUTH EXTERNAL " + h("0"), b"CANCEL", b"AUTH DBUS_COOKIE_SHA1 " + me, R_OK, b"BEGIN"],
        [b"AUTH EXTERNAL " + h("0"), b"ERROR", b"BEGIN"],
        [b"AUTH ANONYMOUS", b"CANCEL", b"AUTH EXTERNAL " + h("0"), b"BEGIN"],
        [b"AUTH DBUS_COOKIE_SHA1 " + me, b"CANCEL", R_OK, b"BEGIN"],
        [b"AUTH DBUS_COOKIE_SHA1 " + me, b"DATA zz", R_OK, b"BEGIN"],
        [b"AUTH DBUS_COOKIE_SHA1 " + me, R_OK, R_OK, b"BEGIN"],
        [b"AUTH DBUS_COOKIE_SHA1 " + me, b"AUTH EXTERNAL " + h("0"), R_OK, b"BEGIN"],
        [b"AUTH DBUS_COOKIE_SHA1 zz", b"DATA " + me, R_OK, b"BEGIN"],
    ]
    for s in seqs:
        for uid in (0, 1000, None):
            cases.append(mk_case(per_line(s), uid=uid, keys=FRESH, tag="cookie-seq"))
    return cases


def gen_boundary(rnd, tier):
    cases = []
    ok = b"AUTH EXTERNAL 30\r\n"
    # incoming buffer cap: a line without terminator around 16 KiB, in one or several reads
    for n in (16383, 16384, 16385, 16386, 20000):
        for chunk in (n, 2048, 4096):
            data = b"A" * n
            st = [("F", data[i:i + chunk]) for i in range(0, n, chunk)] + [("F", b"\r\n"), ("S", None), ("F", ok), ("S", None), ("F", b"BEGIN\r\n")]
            cases.append(mk_case(st, tag="inbuf"))
        # complete lines inside an oversized read
        cases.append(mk_case([("F", ok + b"B" * n + b"\r\nBEGIN\r\n")], tag="inbuf"))
        cases.append(mk_case([("F", ok), ("S", None), ("F", b"B" * n), ("F", b"\r\nBEGIN\r\n")], tag="inbuf"))
        cases.append(mk_case([("F", ok), ("S", None), ("F", b"BEGIN\r\n" + b"m" * n)], tag="inbuf"))
    # unterminated-line floods, delivered in read quanta of 2048 bytes (what the socket transport reads at a time)
    for n in (16383, 16384, 16385, 18 * 1024, 32 * 1024, 64 * 1024) + ((512 * 1024,) if True else ()):
        data = b"A" * n
        st = [("F", data[i:i + 2048]) for i in range(0, n, 2048)] + [("F", b"\r\nAUTH\r\n"), ("S", None)]
        cases.append(mk_case(st, tag="flood"))
        if n <= 64 * 1024:
            st = [("F", ok), ("S", None)] + [("F", data[i:i + 2048]) for i in range(0, n, 2048)] + [("F", b"\r\nBEGIN\r\n")]
            cases.append(mk_case(st, tag="flood"))
    # exactly MAX_BUFFER including the terminator and the following commands
    for n in (16382, 16383, 16384):
        cases.append(mk_case([("F", b"X" * (n - 2) + b"\r\n" + ok + b"BEGIN\r\n")], tag="inbuf"))
        cases.append(mk_case([("F", ok + b"BEGIN\r\n" + b"X" * n)], tag="inbuf"))
    # outgoing cap: many answers without the peer reading them
    for nl in (600, 654, 655, 656, 657, 658, 700):
        cases.append(mk_case([("F", b"X\r\n" * nl + ok + b"BEGIN\r\n")], tag="outbuf"))
        cases.append(mk_case([("F", b"X\r\n" * nl), ("F", ok + b"BEGIN\r\n")], tag="outbuf"))
        cases.append(mk_case([("F", b"X\r\n" * nl), ("S", 100), ("F", ok + b"BEGIN\r\n")], tag="outbuf"))
        cases.append(mk_case([("F", ok + b"X\r\n" * nl + b"BEGIN\r\n")], tag="outbuf"))
    # rejection counter
    rej = [b"AUTH", b"AUTH BOGUS", b"ERROR", b"AUTH EXTERNAL " + h("77"), b"AUTH EXTERNAL 30\r\nCANCEL", b"AUTH ANONYMOUS\r\nERROR"]
    for n in (4, 5, 6, 7, 8):
        for r in rej:
            cases.append(mk_case(per_line([r] * n + [b"AUTH EXTERNAL 30", b"BEGIN"]), tag="rejcount"))
            cases.append(mk_case([("F", (L(r) + b"\r\n") * n + ok + b"BEGIN\r\nrest")], tag="rejcount"))
        mix = [rej[rnd.randrange(len(rej))] for _ in range(n)]
        cases.append(mk_case(per_line(mix + [b"AUTH EXTERNAL 30", b"BEGIN"]), tag="rejcount"))
    # errors do not count
    cases.append(mk_case(per_line([b"FOO"] * 20 + [b"AUTH EXTERNAL zz"] * 20 + [b"AUTH EXTERNAL 30", b"BEGIN"]), tag="rejcount"))
    # bytes around BEGIN
    for tail in (b"", b"l", b"\x00", b"l\x01\x00\x01" + b"\x00" * 12, b"\r\n", b"BEGIN\r\n", b"AUTH\r\n"):
        for begin in (b"BEGIN", b"BEGIN ", b"BEGIN x y", b"BEGIN\t", b"BEGINX", b"begin", b" BEGIN", b"BEGIN\r", b"BEGI"):
            cases.append(mk_case([("F", ok + begin + b"\r\n" + tail)], tag="begin"))
            cases.append(mk_case([("F", ok), ("S", None), ("F", begin + b"\r\n"), ("F", tail)], tag="begin"))
    # message bytes before BEGIN
    hello = b"l\x01\x00\x01\x00\x00\x00\x00\x01\x00\x00\x00\x10\x00\x00\x00"
    for pre in (hello, hello + b"\r\n", b"\x00", b"\x00AUTH EXTERNAL 30"):
        cases.append(mk_case([("F", pre), ("F", ok), ("S", None), ("F", b"BEGIN\r\n")], tag="prebegin"))
        cases.append(mk_case([("F", ok), ("S", None), ("F", pre), ("F", b"BEGIN\r\n")], tag="prebegin"))
    return cases


CRASHY = [b"AUTH \n", b"AUTH \r", b"AUTH EXTERNAL \n30", b"AUTH EXTERNAL\t\r", b"DATA \n", b" \n", b"\t\r", b"X  \n", b"AUTH  \nEXTERNAL",
          b"BEGIN \n", b"CANCEL \r", b"AUTH \n\n", b"AUTH\n", b"AUTH\r", b"AUTH \x0b", b"AUTH EXTERNAL 30\n", b"AUTH\n EXTERNAL"]


def gen_crashy(rnd, tier):
    cases = []
    for l in CRASHY:
        cases.append(mk_case(per_line([l, b"AUTH EXTERNAL 30", b"BEGIN"]), tag="blankcrlf"))
        cases.append(mk_case(per_line([b"AUTH EXTERNAL", l, b"BEGIN"]), tag="blankcrlf"))
        cases.append(mk_case(per_line([b"AUTH EXTERNAL 30", l, b"BEGIN"]), tag="blankcrlf"))
    me = h(str(PUID))
    for sep in (b" \n", b" \r", b"\t\n", b"\n", b" \x0b", b"\n "):
        cases.append(mk_case(per_line([b"AUTH DBUS_COOKIE_SHA1 " + me, ("R", sep, b"cc", "ok", None), b"BEGIN"]), keys=FRESH, tag="blankcrlf"))
    return cases


RICH = [b"AUTH", b"AUTH ", b"AUTH  ", b"AUTH EXTERNAL", b"AUTH EXTERNAL ", b"AUTH EXTERNAL 30", b"AUTH  EXTERNAL  30", b"AUTH\tEXTERNAL\t30",
        b"AUTH EXTERNAL 31303030", b"AUTH EXTERNAL 3", b"AUTH EXTERNAL zz", b"AUTH EXTERNAL 30 ", b"AUTH EXTERNAL 30 30", b"AUTH external 30",
        b"auth EXTERNAL 30", b"AUTH ANONYMOUS", b"AUTH ANONYMOUS 61", b"AUTH ANONYMOUS ff", b"AUTH DBUS_COOKIE_SHA1", b"AUTH BOGUS", b"AUTH BOGUS 30",
        b"AUTH EXTERNALX", b"AUTH EXTERNA", b"DATA", b"DATA ", b"DATA 30", b"DATA 31303030", b"DATA zz", b"DATA 3", b"DATA 30 ", b"CANCEL", b"CANCEL x",
        b"ERROR", b"ERROR \"oops\"", b"BEGIN", b"NEGOTIATE_UNIX_FD", b"NEGOTIATE_UNIX_FD x", b"OK", b"OK 1234", b"REJECTED EXTERNAL", b"AGREE_UNIX_FD",
        b"", b" ", b"\t", b" AUTH", b"FOO", b"AUTHX", b"AUT", b"\xff", b"AUTH \xc3\xa9", b"AUTH\x00", b"A\x00", b"DATA\x7f", b"\x7f", b"\x01"]


def gen_random(rnd, tier):
    cases = []
    n = 2500 if tier == "quick" else 120000
    me = h(str(PUID))
    mechsets = ["*", "*", "*", "EXTERNAL", "ANONYMOUS", "DBUS_COOKIE_SHA1", "EXTERNAL.ANONYMOUS", "-", "BOGUS", "EXTERNAL.BOGUS", "DBUS_COOKIE_SHA1.EXTERNAL"]
    for _ in range(n):
        uid = rnd.choice((0, 0, 0, 1000, None))
        al = RICH + [b"AUTH DBUS_COOKIE_SHA1 " + me, b"AUTH DBUS_COOKIE_SHA1 " + h("root"), b"AUTH EXTERNAL " + h(str(uid or 0)),
                     b"DATA " + h(str(uid or 0)), b"DATA " + me, b"BEGIN", b"BEGIN", b"CANCEL", b"ERROR"]
        k = rnd.choice((1, 2, 3, 4, 5, 6, 8, 12, 20))
        seq = []
        for _ in range(k):
            r = rnd.random()
            if r < 0.12:
                seq.append(("R", rnd.choice((b" ", b" ", b"\t", b"  ", b"")), rnd.choice((b"cc", b"a b", b"")), rnd.choice(COOKIE_MODES[:3] + ["ok", "ok"]),
                            rnd.choice((None, None, None, "aa" * 16))))
            else:
                seq.append(rnd.choice(al))
        env = dict(uid=uid, pid=rnd.choice((None, 4242)), gids=rnd.choice((None, None, [1, 2])), mechs=rnd.choice(mechsets), fdp=rnd.choice((0, 1)),
                   ctx=rnd.choice((None, None, None, b"ctx2")), keys=rnd.choice((FRESH, FRESH, [], [(3, 330, "aa" * 16)], [(4, 500, "bb" * 16)])),
                   kdir=rnd.choice(("ok", "ok", "ok", "ok", "bad", "none")))
        style = rnd.random()
        if style < 0.4 or any(isinstance(x, tuple) for x in seq):
            steps = per_line(seq, drain=rnd.random() < 0.8)
        else:
            data = b"".join(L(x) + b"\r\n" for x in seq) + rnd.choice((b"", b"", b"tail", b"\x00l", b"BEG"))
            steps = []
            if style < 0.55:
                steps = [("F", data)]
            elif style < 0.7:
                steps = [("F", data[i:i + 1]) for i in range(len(data))]
            else:
                i = 0
                while i < len(data):
                    j = min(len(data), i + rnd.choice((1, 2, 3, 5, 8, 13, 40)))
                    steps.append(("F", data[i:j]))
                    if rnd.random() < 0.3:
                        steps.append(("S", rnd.choice((None, None, 1, 7, 30))))
                    i = j
        cases.append(mk_case(steps, tag="random", **env))
    return cases


def gen_chunkings(rnd, tier):
    """every way of cutting short scripts into two reads (the CRLF may straddle the cut)"""
    cases = []
    scripts = [b"AUTH EXTERNAL 30\r\nBEGIN\r\nxy", b"AUTH EXTERNAL\r\nDATA 30\r\nBEGIN\r\n", b"AUTH ANONYMOUS\r\nNEGOTIATE_UNIX_FD\r\nBEGIN\r\n\r\n",
               b"AUTH\r\nAUTH EXTERNAL 31\r\nAUTH EXTERNAL 30\r\nCANCEL\r\nBEGIN\r\n", b"\r\n\r\r\n\n\r\nBEGIN\r\n"]
    for s in scripts:
        for i in range(len(s) + 1):
            cases.append(mk_case([("F", s[:i]), ("F", s[i:])], tag="cut2"))
            cases.append(mk_case([("F", s[:i]), ("S", None), ("F", s[i:])], tag="cut2"))
        if tier != "quick":
            for i in range(len(s) + 1):
                for j in range(i, len(s) + 1):
                    cases.append(mk_case([("F", s[:i]), ("F", s[i:j]), ("F", s[j:])], tag="cut3"))
    return cases


def may_abort(c):
    """conservative syntactic test for the inputs that can trip the assertion in _dbus_string_skip_blank"""
    data = b"".join(s[1] for s in c["steps"] if s[0] == "F")
    if re.search(rb"[ \t][\r\n]", data.replace(b"\r\n", b"\x00\x00")) or re.search(rb"[ \t]\r\r\n", data):
        return True
    for s in c["steps"]:
        if s[0] == "R" and re.search(rb"[\r\n]", s[1] + s[2]):
            return True
    return False


# ---------------------------------------------------------------------------
# running
# ---------------------------------------------------------------------------
def cleanup_tmp():
    for d in glob.glob("/tmp/verif_c08_*"):
        m = re.match(r"/tmp/verif_c08_(\d+)_", d)
        if not m:
            continue
        try:
            os.kill(int(m.group(1)), 0)
        except OSError:
            shutil.rmtree(d, ignore_errors=True)


def run_single(exe, line):
    """one process for one case; returns (stdout text, returncode, stderr tail)"""
    e = dict(os.environ)
    e["ASAN_OPTIONS"] = "detect_leaks=0:abort_on_error=0:exitcode=99:allocator_may_return_null=1"
    e["UBSAN_OPTIONS"] = "print_stacktrace=1:halt_on_error=1"
    e["VERIF_FLUSH"] = "1"
    r = subprocess.run([exe], input=line + "\n", capture_output=True, text=True, env=e, timeout=120)
    return r.stdout, r.returncode, r.stderr[-3000:]


def build_asserts(info):
    try:
        cfg = open(os.path.join(vlib.DBUS_BUILD, "config.h")).read()
        return 0 if re.search(r"^#define DBUS_DISABLE_ASSERT\b", cfg, re.M) else 1
    except OSError:
        return 1


def common_part(res):
    """the part of a result line both sides print: step tokens and end rc/id/unused/fdneg"""
    p = parse_impl(res)
    e = p["end"] or {}
    return p["steps"], (e.get("rc"), e.get("id"), e.get("unused"), e.get("fdneg"))


MAX_BUFFER = 16384
KNOWN_MECHS = [b"EXTERNAL", b"DBUS_COOKIE_SHA1", b"ANONYMOUS"]


def load_known():
    """recorded findings of this property (known-findings.json only)"""
    return {e["id"]: e for e in vlib.load_known("C08")}


def fed_bytes(c, p):
    fed = list(p["fed"])
    out = []
    for s in c["steps"]:
        if s[0] == "F":
            out.append(s[1])
        elif s[0] == "R":
            out.append(unhx(fed.pop(0)) if fed else b"")
    return out


def kinds_of_output(total, c):
    """classify the lines the implementation sent; None if a line is not one the protocol knows"""
    ks = []
    allowed = [m for m in KNOWN_MECHS if c["mechs"] == "*" or m.decode() in c["mechs"].split(".")]
    if total and not total.endswith(b"\r\n"):
        return None
    for line in total.split(b"\r\n")[:-1]:
        if line.startswith(b"REJECTED"):
            if line != b"REJECTED" + b"".join(b" " + m for m in allowed):
                return None
            ks.append("R")
        elif line.startswith(b"OK "):
            if not re.fullmatch(rb"OK [0-9a-f]{32}", line):
                return None
            ks.append("O")
        elif line.startswith(b"ERROR"):
            ks.append("E")
        elif line == b"DATA":
            ks.append("D-")
        elif line.startswith(b"DATA "):
            ks.append("D" + line[5:].decode("latin-1"))
        elif line == b"AGREE_UNIX_FD":
            ks.append("A")
        else:
            return None
    return ks


def spec_line(c, p, ml):
    """specm input: the same environment, the complete lines in the order they arrived"""
    stream = b"".join(fed_bytes(c, p))
    lines = stream.split(b"\r\n")
    tail = lines.pop()
    env = ml.split(" steps=")[0].replace("authm ", "specm ", 1)
    return env + " lines=" + ("/".join(hx(l) if l else "_" for l in lines) or "-"), lines, tail


def oracle(c, p, sres, lines):
    """compare what the implementation did with what the specification prescribes (line level).
    -> (ok, text, oddhex)"""
    toks = sres.split()
    i = toks.index("end")
    spec_kinds = []
    stop = None
    for n, t in enumerate(toks[:i]):
        if t != "-":
            spec_kinds += [("D-" if k == "D-" else k) for k in t.split(",")]
    phase = toks[i + 1]
    extra = dict(kv.split("=") for kv in toks[i + 2:])
    total = produced_output(c, p)
    # the final drain of the harness does not produce output
    ik = kinds_of_output(total, c)
    if ik is None:
        return False, "implementation sent a line the protocol does not know: %r" % total[-200:], int(extra.get("oddhex", 0))
    sk = [k if not k.startswith("D") else ("D-" if k in ("D-", "D") else k) for k in spec_kinds]
    end = p["end"]
    if ik != sk:
        return False, "responses %s, specification prescribes %s" % (ik[:12], sk[:12]), int(extra.get("oddhex", 0))
    if phase.startswith("Authenticated:"):
        if end["rc"] != "A":
            return False, "specification: authenticated, implementation end state %s" % end["rc"], int(extra.get("oddhex", 0))
        if end["id"] != phase.split(":", 1)[1]:
            return False, "identity seen by the application %s, specification %s" % (end["id"], phase), int(extra.get("oddhex", 0))
    elif end["rc"] == "A":
        return False, "implementation authenticated, specification phase %s" % phase, int(extra.get("oddhex", 0))
    elif (phase == "Disconnect") != (end["rc"] == "D"):
        return False, "implementation end state %s, specification phase %s" % (end["rc"], phase), int(extra.get("oddhex", 0))
    stop = int(extra.get("stop", -1))
    if end["rc"] in "AD" and stop >= 0:
        stream = b"".join(fed_bytes(c, p))
        off = sum(len(l) + 2 for l in lines[:stop + 1])
        if unhx(end["unused"] if end["unused"] != "N" else "-") != stream[off:]:
            return False, "bytes handed over as message data %r..., bytes that followed the final line %r..." % (
                unhx(end["unused"] if end["unused"] != "N" else "-")[:40], stream[off:off + 40]), int(extra.get("oddhex", 0))
    if end["fdneg"] != extra.get("fd"):
        return False, "fd negotiation flag %s, specification %s" % (end["fdneg"], extra.get("fd")), int(extra.get("oddhex", 0))
    return True, "", int(extra.get("oddhex", 0))


def small_enough(c, p):
    """no buffer cap can be involved: everything ever buffered stays below MAX_BUFFER"""
    return sum(len(b) for b in fed_bytes(c, p)) <= MAX_BUFFER and len(produced_output(c, p)) <= MAX_BUFFER


def buffer_oracle(c, p):
    """property text: 'buffers no more than a fixed amount of handshake data': after a read the server either gave up
    or holds at most MAX_BUFFER unprocessed bytes; and it gives up after a bounded number of rejections"""
    pending = b""
    k = 0
    fed = list(p["fed"])
    for s in c["steps"]:
        if k >= len(p["steps"]):
            break
        rc = p["steps"][k][0]
        unsent = len(p["steps"][k][1]) // 2 if p["steps"][k][1] != "-" else 0
        k += 1
        if unsent > MAX_BUFFER + 512 and rc not in "DA":
            return "server keeps working with %d bytes of answers nobody read (cap %d + one answer)" % (unsent, MAX_BUFFER)
        if s[0] == "F" or s[0] == "R":
            pending += s[1] if s[0] == "F" else (unhx(fed.pop(0)) if fed else b"")
            if rc in "DA":
                return None
            j = pending.rfind(b"\r\n")
            if j >= 0 and len(pending) <= MAX_BUFFER:
                pending = pending[j + 2:]
            if len(pending) > MAX_BUFFER + 0 and rc not in "DA" and b"\r\n" not in pending:
                return ("server still accepts input while holding %d not-yet-consumed handshake bytes (no line end among them), neither answered nor "
                        "disconnected; the fixed amount is %d (+ one read of 2048 in flight)" % (len(pending), MAX_BUFFER))
    rej = produced_output(c, p).count(b"REJECTED")
    if rej > 6 or (rej == 6 and p["end"]["rc"] != "D"):
        return "%d REJECTED lines sent and end state %s" % (rej, p["end"]["rc"])
    return None


ASSERT_TEXT = "_dbus_string_skip_blank"


def recency_oracle(c, p):
    """Spec.KeyringSpec, independent of the model: "cookies that are close to their deletion time should not be used for new
    authentication operations ... generates a new cookie whenever the most recent cookie is older than 5 minutes" and cookies more
    than 5 minutes in the future / 7 minutes in the past are deleted.  Judged on what the implementation sent: every challenge names
    a cookie id; if that id stems from the prepared file (not created by the server during this conversation), some line spelling
    that id must be younger than NEW_KEY_TIMEOUT and not future-dated beyond MAX_TIME_TRAVEL (wall-clock ages; +-5 s tolerance)."""
    items = [it for it in key_items(c) if it[0] == "K"]
    if not items or any(it[0] == "R" for it in key_items(c)):
        return None
    ages = {}
    for it in items:
        i = c_int(it[1])
        if i is None:
            return None
        ages.setdefault(i, []).append(it[2])
    for (cid, chal, cctx) in challenges(produced_output(c, p)):
        if cid in ages and not any(-305 <= g <= 305 for g in ages[cid]):
            ok_after = b"OK " in produced_output(c, p)
            return ("the server issued a challenge for cookie %d, whose only lines in the keyring are %s seconds old (limit for new challenges: 300 s)%s"
                    % (cid, ages[cid], " and later answered OK" if ok_after else ""))
    return None


def check_case(rep, known, c, r, p, ml, m, sres, lines, stats):
    """verdict rules for one case that ran to completion on both sides"""
    agree = common_part(r) == common_part(m)
    replay = {"impl_input": impl_line(c), "model_input": ml, "impl": r, "model": m, "spec": sres}
    ro = recency_oracle(c, p)
    if ro:
        rep.violation("cookie recency rule broken on %s: %s" % (impl_line(c)[:300], ro), replay)
        return
    bo = buffer_oracle(c, p)
    if bo:
        rep.violation("buffer/rejection bound broken on %s: %s" % (impl_line(c)[:300], bo), replay)
        return
    if sres is not None:
        ok, why, oddhex = oracle(c, p, sres, lines)
    else:
        ok, why, oddhex = True, "", 0
    if agree:
        if not ok:
            if oddhex and "F08b" in known:
                rep.known(known["F08b"], impl_line(c)[:200])
                stats["F08b"] = stats.get("F08b", 0) + 1
            else:
                rep.violation("code and model agree but the specification differs on %s: %s" % (impl_line(c)[:300], why), replay)
        return
    stats["disagree"] = stats.get("disagree", 0) + 1
    if sres is not None and not ok and not oddhex:
        rep.violation("implementation departs from the specified handshake on %s: %s (model: %s)" % (impl_line(c)[:400], why, m[-160:]), replay)
    else:
        replay["names"] = "correspondence auth_h vs Auth.Server.step"
        rep.violation("implementation and model disagree on %s: impl `%s` model `%s`" % (impl_line(c)[:300], r[:300], m[:300]), replay, found_input=False)


def bigstack(exe):
    """the extracted model recurses over its byte lists: give it a large stack for the 512 KiB floods"""
    w = exe + "_bigstack"
    body = "#!/bin/sh\nulimit -s unlimited 2>/dev/null || ulimit -s 4000000 2>/dev/null\nexec %s\n" % exe
    if not os.path.exists(w) or open(w).read() != body:
        with open(w, "w") as f:
            f.write(body)
        os.chmod(w, 0o755)
    return w


def run_leg1(ctx, cases, known, stats):
    rep, tier, info = ctx["rep"], ctx["tier"], ctx["info"]
    info = dict(info, model_auth=bigstack(info["model_auth"]))
    asserts = build_asserts(info)
    batch = [c for c in cases if not may_abort(c)]
    single = [c for c in cases if may_abort(c)]
    if tier == "quick":
        single = single[:160]
    impl, icr = vlib.run_lines(info["auth_h"], [impl_line(c) for c in batch])
    for line, err in icr:
        rep.violation("implementation crashed / sanitizer report on input `%s`: %s" % (line[:300], err[-700:]), {"impl_input": line, "stderr": err})
    # --- cases that may trip the assertion: one process each
    from concurrent.futures import ThreadPoolExecutor
    with ThreadPoolExecutor(max_workers=max(2, vlib.NPROC)) as ex:
        sres = list(ex.map(lambda c: run_single(info["auth_h"], impl_line(c)), single))
    all_cases = batch + single
    results = list(impl) + [o.strip().split("\n")[0] if rc == 0 else "!ABORT " + o.strip() for (o, rc, err) in sres]
    errs = [None] * len(batch) + [err if rc != 0 else None for (o, rc, err) in sres]
    parsed, mlines, slines, slists = [], [], [], []
    for c, r in zip(all_cases, results):
        if r == "!CRASH":
            parsed.append(None); mlines.append(""); slines.append(""); slists.append(None)
            continue
        aborted = r.startswith("!ABORT")
        p = parse_impl(r[7:] if aborted else r)
        p["aborted"] = aborted
        parsed.append(p)
        if not aborted and not p["end"]:
            mlines.append(""); slines.append(""); slists.append(None)
            continue
        ml = model_line(c, p, asserts)[0]
        mlines.append(ml)
        if not aborted and small_enough(c, p):
            sl, lines, tail = spec_line(c, p, ml)
            slines.append(sl); slists.append(lines)
        else:
            slines.append(""); slists.append(None)
    model, mcr = vlib.run_lines(info["model_auth"], mlines)
    spec, scr = vlib.run_lines(info["model_auth"], slines)
    for line, err in mcr + scr:
        rep.violation("extracted model failed on `%s`: %s" % (line[:300], err[-300:]), {"model_input": line, "names": "model driver"}, found_input=False)
    dist, nontrivial = {}, set()
    for c, r, p, ml, m, sl, sr, lines, err in zip(all_cases, results, parsed, mlines, model, slines, spec, slists, errs):
        if p is None or not ml:
            continue
        dist[c["tag"]] = dist.get(c["tag"], 0) + 1
        if m.startswith("?") or m == "!CRASH" or (sl and (sr.startswith("?") or sr == "!CRASH")):
            rep.violation("model driver failed: %s / %s on %s" % (m[:100], sr[:100], ml[:200]), {"model_input": ml, "names": "model driver"}, found_input=False)
            continue
        pm = parse_impl(m)
        if p["aborted"]:
            # the process died: the model must say so at the same step, and only the known assertion may be the cause
            k = len(p["steps"])
            mod_abort = k < len(pm["steps"]) and pm["steps"][k][0] == "X" and all(x[0] != "X" for x in pm["steps"][:k])
            same_prefix = p["steps"] == pm["steps"][:k]
            if ASSERT_TEXT in (err or "") and mod_abort and same_prefix and "F08a" in known:
                rep.known(known["F08a"], impl_line(c)[:200])
                stats["F08a"] = stats.get("F08a", 0) + 1
            elif ASSERT_TEXT in (err or "") and "F08a" in known:
                rep.violation("implementation aborted in _dbus_string_skip_blank but the model does not predict it there: %s" % impl_line(c)[:300],
                              {"impl_input": impl_line(c), "model_input": ml, "impl": r, "model": m, "names": "correspondence (abort class) auth_h vs Auth.Server.skip_blank"}, found_input=False)
            else:
                rep.violation("implementation crashed / sanitizer report on input `%s`: %s" % (impl_line(c)[:300], (err or "")[-700:]),
                              {"impl_input": impl_line(c), "stderr": err})
            continue
        if any(x[0] == "X" for x in pm["steps"]) or (pm["end"] or {}).get("rc") == "X":
            rep.violation("model predicts an assertion failure but the implementation survived: %s" % impl_line(c)[:300],
                          {"impl_input": impl_line(c), "model_input": ml, "impl": r, "model": m, "names": "correspondence (abort class) auth_h vs Auth.Server.skip_blank"}, found_input=False)
            continue
        check_case(rep, known, c, r, p, ml, m, sr if sl else None, lines, stats)
        if p["end"]["rc"] == "A":
            nontrivial.add(impl_line(c))
        elif sl:
            nontrivial.add("n:" + sl.split(" lines=")[1] + c["mechs"])
    stats["batch"] = len(batch); stats["single"] = len(single)
    stats["spec_checked"] = sum(1 for s_ in slines if s_)
    cleanup_tmp()
    return dist, nontrivial, len(all_cases)


# ---------------------------------------------------------------------------
# leg 2: the running daemon (transport admission, no message before BEGIN)
# ---------------------------------------------------------------------------
def daemon_scripts(rnd, tier):
    """(name, daemon flavour, list of byte strings to send one by one, send Hello afterwards?)"""
    me = h(str(PUID))
    other = h(str(PUID + 1000))
    hello = None  # filled in by the runner (needs rawbus)
    S = []
    ok = b"AUTH EXTERNAL " + me + b"\r\n"
    S.append(("valid", "default", [ok, b"BEGIN\r\n"]))
    S.append(("valid-empty-identity", "default", [b"AUTH EXTERNAL\r\n", b"DATA\r\n", b"BEGIN\r\n"]))
    S.append(("valid-fd", "default", [ok, b"NEGOTIATE_UNIX_FD\r\n", b"BEGIN\r\n"]))
    S.append(("pipelined", "default", [ok + b"NEGOTIATE_UNIX_FD\r\nBEGIN\r\n"]))
    S.append(("other-uid", "default", [b"AUTH EXTERNAL " + other + b"\r\n", b"BEGIN\r\n"]))
    S.append(("other-uid-then-valid", "default", [b"AUTH EXTERNAL " + other + b"\r\n", ok, b"BEGIN\r\n"]))
    S.append(("begin-first", "default", [b"BEGIN\r\n"]))
    S.append(("no-begin", "default", [ok]))
    S.append(("ok-cancel-begin", "default", [ok, b"CANCEL\r\n", b"BEGIN\r\n"]))
    S.append(("ok-cancel-anon", "default", [ok, b"CANCEL\r\n", b"AUTH ANONYMOUS\r\n", b"BEGIN\r\n"]))
    S.append(("anon-not-enabled", "default", [b"AUTH ANONYMOUS\r\n", b"BEGIN\r\n"]))
    S.append(("anon-enabled", "anon", [b"AUTH ANONYMOUS\r\n", b"BEGIN\r\n"]))
    S.append(("anon-enabled-after-ok", "anon", [ok, b"ERROR\r\n", b"AUTH ANONYMOUS 61\r\n", b"BEGIN\r\n"]))
    S.append(("anon-not-permitted", "external-only", [b"AUTH ANONYMOUS\r\n", ok, b"BEGIN\r\n"]))
    S.append(("cookie-not-permitted", "external-only", [b"AUTH DBUS_COOKIE_SHA1 " + me + b"\r\n", b"BEGIN\r\n"]))
    S.append(("six-rejections", "default", [b"AUTH\r\n"] * 6 + [ok]))
    S.append(("five-rejections", "default", [b"AUTH\r\n"] * 5 + [ok, b"BEGIN\r\n"]))
    S.append(("junk", "default", [b"FOO\r\n", b"\xff\r\n", b"DATA 30\r\n", ok, b"DATA\r\n", b"AUTH\r\n", b"BEGIN\r\n"]))
    S.append(("hello-before-begin", "default", [ok, "HELLO", b"BEGIN\r\n"]))
    S.append(("hello-line-before-begin", "default", [ok, "HELLO", b"\r\n", b"BEGIN\r\n"]))
    S.append(("hello-before-auth", "default", ["HELLO", b"\r\n", ok, b"BEGIN\r\n"]))
    S.append(("odd-hex", "default", [b"AUTH EXTERNAL " + me + b"0"[:0] + b"\r\n", b"BEGIN\r\n"] if False else [b"AUTH EXTERNAL 3\r\n", b"BEGIN\r\n"]))
    S.append(("cookie", "cookie", [b"AUTH DBUS_COOKIE_SHA1 " + me + b"\r\n", ("R", b" ", b"daemonleg", "ok", None), b"BEGIN\r\n"]))
    S.append(("cookie-wrong", "cookie", [b"AUTH DBUS_COOKIE_SHA1 " + me + b"\r\n", ("R", b" ", b"daemonleg", "flip", None), b"BEGIN\r\n"]))
    S.append(("cookie-other-user", "cookie", [b"AUTH DBUS_COOKIE_SHA1 " + other + b"\r\n", b"BEGIN\r\n"]))
    # blank followed by a bare LF / CR: used to abort the daemon (F08a, fixed by 94435c1); now ordinary lines
    S.append(("blank-lf", "default", [b"AUTH \n\r\n", ok, b"BEGIN\r\n"]))
    S.append(("blank-cr", "default", [ok, b"BEGIN \r\r\n"]))
    S.append(("big-line", "default", [b"A" * 9000, b"A" * 9000, b"\r\n" + ok]))
    n = 12 if tier == "quick" else 200
    al = [ok, b"AUTH EXTERNAL " + other + b"\r\n", b"AUTH\r\n", b"CANCEL\r\n", b"ERROR\r\n", b"BEGIN\r\n", b"NEGOTIATE_UNIX_FD\r\n", b"DATA\r\n",
          b"AUTH EXTERNAL\r\n", b"AUTH ANONYMOUS\r\n", b"X\r\n", b"DATA " + me + b"\r\n"]
    for i in range(n):
        S.append(("random%d" % i, rnd.choice(("default", "anon", "external-only")), [rnd.choice(al) for _ in range(rnd.choice((2, 3, 4, 6, 9)))]))
    return S


FLAVOURS = {"default": "", "anon": "<allow_anonymous/>", "external-only": "<auth>EXTERNAL</auth>", "cookie": "<auth>DBUS_COOKIE_SHA1</auth>"}
FLAVOUR_MECHS = {"default": "*", "anon": "*", "external-only": "EXTERNAL", "cookie": "DBUS_COOKIE_SHA1"}


def read_lines(sock, n, timeout=3.0):
    """read until n CRLF-terminated lines have arrived, EOF, or timeout; -> (lines, rest, eof)"""
    import select
    buf = b""
    eof = False
    t_end = time.time() + timeout
    while buf.count(b"\r\n") < n and not eof:
        left = t_end - time.time()
        if left <= 0:
            break
        r, _, _ = select.select([sock], [], [], left)
        if not r:
            break
        try:
            d = sock.recv(65536)
        except OSError:
            d = b""
        if not d:
            eof = True
        buf += d
    parts = buf.split(b"\r\n")
    return parts[:-1], parts[-1], eof


def read_keyfile(home):
    try:
        return [l for l in open(os.path.join(home, ".dbus-keyrings", DEFAULT_CTX.decode()), "rb").read().split(b"\n") if l]
    except OSError:
        return None


def daemon_model_line(env, sent, got, before, now0, home, asserts):
    """model input for a daemon conversation: the keyring world is the file as it was when the connection started, the keys
    the daemon added since (read back like a client would), the daemon's clock ~ ours"""
    env["steps"] = [x for dd in sent for x in (("F", dd), ("S", None))]
    ml = model_line(env, {"fed": [], "steps": [], "end": {"keyfile": "-"}}, asserts)[0]
    ch = challenges(b"".join(l + b"\r\n" for l in got))
    after = read_keyfile(home) or []
    old_ids = set(l.split()[0] for l in (before or []) if l.split())
    newkeys = ["%s:%s" % (l.split()[0].decode(), l.split()[2].decode()) for l in after if len(l.split()) == 3 and l.split()[0] not in old_ids]
    world = "now=%d file=%s dirp0=%d dirp=1 newkeys=%s" % (now0, "/".join(hx(l) for l in (before or [])) or "-", 0 if before is None else 1, "/".join(newkeys) or "-")
    ml = re.sub(r" now=\S+ file=\S+ dirp0=\S+ dirp=\S+ newkeys=\S+", " " + world, ml)
    ml = re.sub(r" chals=\S+", " chals=" + ("/".join(x[1] for x in ch) or "-"), ml)
    return ml


def run_leg2(ctx, known, stats):
    import socket, tempfile
    sys.path.insert(0, os.path.join(vlib.VERIF, "harness", "py"))
    import rawbus
    rep, tier, info = ctx["rep"], ctx["tier"], ctx["info"]
    rnd = random.Random(ctx["seed"] + 8)
    asserts = build_asserts(info)
    scripts = daemon_scripts(rnd, tier)
    hello = rawbus.Msg(rawbus.METHOD_CALL, 0, 1, {rawbus.F_PATH: "/org/freedesktop/DBus", rawbus.F_MEMBER: "Hello",
                                                  rawbus.F_INTERFACE: "org.freedesktop.DBus", rawbus.F_DESTINATION: "org.freedesktop.DBus"}).encode()
    home = tempfile.mkdtemp(prefix="verif_c08_home_")
    daemons = {}
    n_ok = 0
    try:
        for fl, auth in FLAVOURS.items():
            daemons[fl] = rawbus.Daemon(info["daemon"], auth=auth, env={"DBUS_TEST_HOMEDIR": home})
        for name, fl, steps in scripts:
            d = daemons[fl]
            if not d.alive():
                rep.violation("daemon died before script %s: %s" % (name, d.stderr()[-600:]), {"script": name})
                break
            file_before = read_keyfile(home) if os.path.isdir(os.path.join(home, ".dbus-keyrings")) else None
            now0 = int(time.time())
            sk = socket.socket(socket.AF_UNIX, socket.SOCK_STREAM)
            sk.connect(d.sock)
            sk.sendall(b"\0")
            got = []          # response lines, in order
            sent = []         # concrete bytes, one entry per step
            eof = False
            env = dict(uid=PUID, pid=os.getpid(), gids=None, mechs=FLAVOUR_MECHS[fl], fdp=1, ctx=None, keys=[], kdir="ok", steps=[], tag="daemon")
            expected_total = 0
            mres = None
            for st in steps:
                if st == "HELLO":
                    data = hello
                elif isinstance(st, tuple):
                    # cookie response from the last DATA line, cookie read from the keyring file like a client does
                    ch = challenges(b"".join(l + b"\r\n" for l in got))
                    if not ch:
                        data = b"DATA\r\n"
                    else:
                        cid, chal, cctx = ch[-1]
                        secret = ""
                        try:
                            for ln in open(os.path.join(home, ".dbus-keyrings", cctx.decode())):
                                f = ln.split()
                                if len(f) == 3 and int(f[0]) == cid:
                                    secret = f[2]
                        except OSError:
                            pass
                        hh = hashlib.sha1(chal.encode() + b":" + st[2] + b":" + secret.encode()).hexdigest()
                        if st[3] == "flip":
                            hh = hh[:-1] + ("1" if hh[-1] == "0" else "0")
                        data = b"DATA " + (st[2] + st[1] + hh.encode()).hex().encode() + b"\r\n"
                else:
                    data = st
                sent.append(data)
                # what does the model expect after this much input?  (the daemon always writes out what it has)
                ch = challenges(b"".join(l + b"\r\n" for l in got))
                ml = daemon_model_line(env, sent, got, file_before, now0, home, asserts)
                # a challenge the daemon has not issued yet cannot be known: run the model twice if needed
                mres = vlib.run_one(info["model_auth"], ml)[0]
                pm = parse_impl(mres)
                mtotal = produced_output(env, pm)
                want = mtotal.count(b"\r\n")
                if b"DBUS_COOKIE_SHA1" in data and data.startswith(b"AUTH") and fl == "cookie" and len(ch) < 1 + len([x for x in sent[:-1] if x.startswith(b"AUTH DBUS_COOKIE")]):
                    want = len(got) + 1      # the challenge line itself is environment: read it, then re-run the model with it
                try:
                    sk.sendall(data)
                except OSError:
                    eof = True
                if not eof:
                    lines, rest, eof = read_lines(sk, want - len(got)) if want > len(got) else ([], b"", False)
                    got += lines
                if (pm["end"] or {}).get("rc") in ("A", "D"):
                    break       # the conversation is over: anything sent now would be message data (or is never read)
            # final comparison against the model on the complete input
            ml = daemon_model_line(env, sent, got, file_before, now0, home, asserts)
            mres = vlib.run_one(info["model_auth"], ml)[0]
            pm = parse_impl(mres)
            mlines = produced_output(env, pm).split(b"\r\n")[:-1]
            canon = lambda ls: [b"OK" if l.startswith(b"OK ") else (b"ERROR" if l.startswith(b"ERROR") else l) for l in ls]
            replay = {"leg": "daemon", "script": name, "flavour": fl, "sent": [x.hex() for x in sent], "got": [x.decode("latin-1") for x in got], "model_input": ml, "model": mres}
            if canon(got) != canon(mlines):
                rep.violation("daemon handshake %s: answers %s, model %s" % (name, canon(got)[-6:], canon(mlines)[-6:]), replay)
                sk.close()
                continue
            end = pm["end"]
            uid_granted = None if end["id"] in ("N",) or end["id"].split("/")[0] == "-" else int(end["id"].split("/")[0])
            model_auth = end["rc"] == "A"
            admitted = model_auth and (uid_granted is not None or fl == "anon")     # Auth.Transport.admit with the bus policy allowing the bus's own uid
            # is a message answered?
            answered = False
            creds = None
            try:
                sk.sendall(hello)
                sk.settimeout(3.0 if admitted else 0.6)
                buf = unhx(end["unused"] if end.get("unused") not in (None, "N") else "-") * 0
                data = b""
                while True:
                    try:
                        dd = sk.recv(65536)
                    except (socket.timeout, OSError):
                        break
                    if not dd:
                        eof = True
                        break
                    data += dd
                    mm, nn = rawbus.parse_message(bytearray(data))
                    if mm is not None:
                        answered = mm.mtype == rawbus.METHOD_RETURN
                        break
            except OSError:
                eof = True
            sk.close()
            if answered != admitted:
                rep.violation("daemon %s (%s): a Hello sent after the handshake was %sanswered, but the handshake %s"
                              % (name, fl, "" if answered else "not ", "ended authenticated and admitted" if admitted else "did not authenticate an admissible identity (model end %s id %s)" % (end["rc"], end["id"])), replay)
                continue
            n_ok += 1
        # identity seen by the application: GetConnectionCredentials on a valid EXTERNAL / ANONYMOUS / cookie connection
        for fl, first, want_uid in (("default", b"AUTH EXTERNAL " + h(str(PUID)) + b"\r\n", PUID), ("anon", b"AUTH ANONYMOUS\r\n", None)):
            c = rawbus.RawConn(daemons[fl].address, auth=False)
            c.sock.sendall(b"\0" + first)
            line = c._readline()
            c.sock.sendall(b"BEGIN\r\n")
            r = c.hello()
            if r is None or r.mtype != rawbus.METHOD_RETURN:
                rep.violation("daemon (%s): Hello after a valid %r exchange not answered (%r)" % (fl, first, line), {"leg": "daemon", "flavour": fl})
                continue
            cr = c.call("GetConnectionCredentials", "s", (c.unique,))
            d = dict(cr.body[0]) if cr is not None and cr.mtype == rawbus.METHOD_RETURN else {}
            got_uid = d.get("UnixUserID")
            got_uid = got_uid.val if hasattr(got_uid, "val") else got_uid
            got_pid = d.get("ProcessID")
            got_pid = got_pid.val if hasattr(got_pid, "val") else got_pid
            if got_uid != want_uid or got_pid != os.getpid():
                rep.violation("daemon (%s): identity after %r is uid=%r pid=%r, the mechanism established uid=%r pid=%r" % (fl, first, got_uid, got_pid, want_uid, os.getpid()),
                              {"leg": "daemon", "flavour": fl, "credentials": repr(d)})
            else:
                n_ok += 1
            c.close()
    finally:
        for fl, d in daemons.items():
            rc, err = d.stop()
            if fl != "abort" and (rc not in (0, -15) or "ERROR: AddressSanitizer" in err or "runtime error" in err):
                rep.violation("daemon (%s) exited with %s / sanitizer output: %s" % (fl, rc, err[-800:]), {"leg": "daemon", "flavour": fl, "stderr": err[-3000:]})
        shutil.rmtree(home, ignore_errors=True)
    stats["daemon_scripts"] = len(scripts) + 2
    stats["daemon_ok"] = n_ok


# ---------------------------------------------------------------------------
# leg 1b: the keyring object on its own (dbus-keyring.c vs Auth.Keyring)
# ---------------------------------------------------------------------------
K_AGES = [0, 10, 297, 298, 302, 303, 417, 418, 422, 423, 500, -10, -297, -298, -302, -303, -1000]
K_IDS = [b"7", b"010", b"0x10", b"07", b"0x7", b" 7", b"+7", b"-7", b"-0", b"0", b"2147483647", b"2147483648", b"99999999999999999999", b"", b"x", b"7x", b"0x", b"\t7"]
K_SECRETS = [b"aabb", b"AABB", b"aab", b"", b"zz", b"aabb ", b"aabb x", b"0", b"00" * 24]
K_SEPS = [b" ", b"\t", b"  ", b" \t "]
K_TPS = [b"", b"+", b" ", b"0", b"-", b"0x"]
K_RAW = [b"", b"   ", b"7", b"7 12", b"7 0 aabb", b"7 -5 aabb", b"7 99999999999 aabb", b"7 9223372036854775808 aabb", b"7 12 aabb\xc3\xa9", b"# comment",
         b"7  1 aabb", b"8\t1\taabb"]
K_CTX = [None, b"ctxa", b"a/b", b"a.b", b"a b", b"\xc3\xa9", b"a\\b", b"a\tb", b"x" * 60]


def keyring_case(items, ops, ctx=None, kdir="ok"):
    return {"items": list(items), "ops": list(ops), "ctx": ctx, "kdir": kdir}


def gen_keyring(rnd, tier):
    K = lambda i, age, sec=b"aabb", sep=b" ", tp=b"": ("K", i, age, sec, sep, tp)
    cases = []
    std_ops = ["B", "H7", "H8", "H9", "B", "H7"]
    for age in K_AGES:
        cases.append(keyring_case([K(b"7", age)], ["H7", "B", "H7", "B"]))
        cases.append(keyring_case([K(b"8", 500), K(b"7", age), K(b"9", 10)], std_ops))
        cases.append(keyring_case([K(b"7", age), K(b"7", 10, b"ccdd")], std_ops))          # duplicate id: the first one counts
        for kdir in ("bad", "none"):
            cases.append(keyring_case([K(b"7", age)], ["H7", "B", "H7"], kdir=kdir))
    for i in K_IDS:
        cases.append(keyring_case([K(i, 10)], ["B", "H7", "H0", "H8", "H10", "H16", "H2147483647"]))
    for sec in K_SECRETS:
        cases.append(keyring_case([K(b"7", 10, sec)], ["B", "H7"]))
    for sep in K_SEPS:
        for tp in K_TPS:
            cases.append(keyring_case([K(b"7", 10, b"aabb", sep, tp)], ["B", "H7"]))
    for raw in K_RAW:
        cases.append(keyring_case([("R", raw)], ["B", "H7", "H8"]))
        cases.append(keyring_case([K(b"9", 10), ("R", raw), K(b"8", 20)], ["B", "H7", "H8", "H9"]))
    for n in (8, 9, 10, 11, 12):          # MAX_KEYS_IN_FILE, with and without room for the key to add
        items = [K(str(100 + j).encode(), 350) for j in range(n)]
        cases.append(keyring_case(items, ["H107", "H108", "H109", "H110", "B", "H107", "H108", "H109", "H110", "B"]))
        items = [K(str(100 + j).encode(), 350 if j < n - 1 else 10) for j in range(n)]
        cases.append(keyring_case(items, ["B", "H%d" % (100 + n - 1), "H108", "H109"]))
    for ctx in K_CTX:
        cases.append(keyring_case([K(b"7", 10)], ["B", "H7"], ctx=ctx))
    for _ in range(300 if tier == "quick" else 20000):
        items = []
        for _ in range(rnd.choice((0, 1, 2, 3, 5, 11))):
            if rnd.random() < 0.15:
                items.append(("R", rnd.choice(K_RAW)))
            else:
                items.append(K(rnd.choice(K_IDS[:8] + [b"7", b"8", b"9"]), rnd.choice(K_AGES), rnd.choice(K_SECRETS[:3] + [b"aabb", b"ccdd"]), rnd.choice(K_SEPS), rnd.choice(K_TPS[:2] + [b""] * 3)))
        ops = [rnd.choice(("B", "B", "H7", "H8", "H9", "H0")) for _ in range(rnd.choice((1, 2, 4, 6)))]
        cases.append(keyring_case(items, ops, ctx=rnd.choice((None, None, None, b"ctxa")), kdir=rnd.choice(("ok", "ok", "ok", "bad", "none"))))
    return cases


def keyring_impl_line(c):
    return "keyring ctx=%s kdir=%s lines=%s ops=%s" % ("-" if c["ctx"] is None else hx(c["ctx"]), c["kdir"],
                                                        "/".join(item_str(it) for it in c["items"]) or "-", ",".join(c["ops"]))


def run_keyring(ctx, stats):
    rep, tier, info = ctx["rep"], ctx["tier"], ctx["info"]
    rnd = random.Random(ctx["seed"] + 5)
    cases = gen_keyring(rnd, tier)
    impl, icr = vlib.run_lines(info["auth_h"], [keyring_impl_line(c) for c in cases], shards=1 if len(cases) < 3000 else None)
    for line, err in icr:
        rep.violation("implementation crashed / sanitizer report on input `%s`: %s" % (line[:300], err[-700:]), {"impl_input": line, "stderr": err})
    mlines = []
    for c, r in zip(cases, impl):
        f = dict(t.split("=", 1) for t in r.split() if "=" in t) if r != "!CRASH" else {}
        if "now" not in f:
            mlines.append("")
            continue
        cx = DEFAULT_CTX if c["ctx"] is None else c["ctx"]
        mlines.append("keyringm ctx=%s %s ops=%s" % (hx(cx), world_str(c["items"], cx, c["kdir"], int(f["now"]), f.get("keyfile", "-")), ",".join(c["ops"])))
    model, mcr = vlib.run_lines(info["model_auth"], mlines)
    nontriv = 0
    for c, r, ml, m in zip(cases, impl, mlines, model):
        if not ml:
            continue
        it = [t for t in r.split() if t[:2] in ("B:", "H:") or t.startswith("new=")]
        mt = [t for t in m.split() if t[:2] in ("B:", "H:") or t.startswith("new=")]
        replay = {"impl_input": keyring_impl_line(c), "model_input": ml, "impl": r, "model": m}
        if any(t.startswith("H:") and t != "H:-" for t in it):
            nontriv += 1
        # specification oracle on the implementation's answers (D-Bus specification, DBUS_COOKIE_SHA1: cookies that are old or
        # more than a reasonable time in the future are deleted; a cookie that is not recent is not used for new challenges)
        bad = keyring_oracle(c, r)
        lenient = keyring_lenient_ids(c, r)
        if lenient and not bad and it == mt:
            kn = ctx.get("known", {})
            if "F08c" in kn:
                rep.known(kn["F08c"], keyring_impl_line(c)[:200])
                stats["F08c"] = stats.get("F08c", 0) + 1
            else:
                rep.violation("keyring: %s on %s -> %s" % (lenient, keyring_impl_line(c)[:300], r[:200]), replay)
        if bad:
            rep.violation("keyring: %s on %s -> %s" % (bad, keyring_impl_line(c)[:300], r[:200]), replay)
        elif it != mt:
            replay["names"] = "correspondence auth_h/keyring vs Auth.Keyring"
            rep.violation("keyring: implementation `%s`, model `%s` on %s" % (" ".join(it), " ".join(mt), keyring_impl_line(c)[:300]), replay, found_input=False)
        else:
            # a save happened: the file must hold exactly the model's key list
            kf = dict(t.split("=", 1) for t in r.split() if "=" in t).get("keyfile", "-")
            mk = dict(t.split("=", 1) for t in m.split() if "=" in t).get("keys", "")
            if kf != "-" and any(re.fullmatch(r"[0-9a-f]{48}", e.split(":")[2]) and int(e.split(":")[1]) <= 2 for e in kf.split("/") if e.count(":") == 2):
                fk = ["%s:%s" % (e.split(":")[0], e.split(":")[2].lower()) for e in kf.split("/")]
                if fk != [x for x in mk.split("/") if x]:
                    replay["names"] = "correspondence (saved file) auth_h/keyring vs Auth.Keyring.reload"
                    rep.violation("keyring: file saved as %s, model key list %s" % (fk[:6], mk[:200]), replay, found_input=False)
    stats["keyring"] = len(cases)
    stats["keyring_nontrivial"] = nontriv
    cleanup_tmp()


def c_int(text):
    """strtol (text, ., 0) of a whole word, None if it is not one"""
    t = text.strip(b" \t").decode("latin-1")
    m = re.fullmatch(r"([+-]?)(0[xX][0-9a-fA-F]+|0[0-7]*|[1-9][0-9]*)", t)
    if not m:
        return None
    d = m.group(2)
    v = int(d, 16) if d[:2].lower() == "0x" else (int(d, 8) if d.startswith("0") and len(d) > 1 else int(d))
    return -v if m.group(1) == "-" else v


def keyring_lenient_ids(c, r):
    """the specification's cookie id is a non-negative decimal integer: a key served under an id that no line spells that way"""
    ans = [t for t in r.split() if t[:2] in ("B:", "H:")]
    for op, a in zip(c["ops"], ans):
        if op[0] == "H" and a != "H:-":
            i = int(op[1:])
            spelled = [it for it in c["items"] if it[0] == "K" and re.fullmatch(rb"0|[1-9][0-9]*", it[1]) and int(it[1]) == i]
            other = [it for it in c["items"] if it[0] == "K" and c_int(it[1]) == i and it not in spelled]
            if not spelled and other and all(it[0] == "K" for it in c["items"]):
                return "cookie %d served from a line whose id field is %r" % (i, other[0][1])
    return None


def keyring_oracle(c, r):
    """property oracle on the implementation's answers, from an independent reading of the file items (D-Bus specification,
    DBUS_COOKIE_SHA1: cookies that are old or too far in the future are deleted; only a recent cookie is announced):
    a served key must stem from a line that is neither expired nor future-dated, an announced key from a recent one"""
    f = dict(t.split("=", 1) for t in r.split() if "=" in t)
    cx = DEFAULT_CTX if c["ctx"] is None else c["ctx"]
    ctx_ok = len(cx) > 0 and all(0 < b < 128 and b not in b"/\\ \n\r\t." for b in cx)      # the specification's context-name rule
    if f.get("new") == "1" and not ctx_ok:
        return "a keyring was opened for the context name %r, which the specification forbids" % cx
    if any(it[0] == "R" and len(it[1].split()) >= 3 for it in c["items"]):
        return None
    created = set()
    if f.get("keyfile", "-") != "-":
        created = set(int(e.split(":")[0]) for e in f["keyfile"].split("/") if e.count(":") == 2 and int(e.split(":")[1]) <= 2 and re.fullmatch(r"[0-9a-f]{48}", e.split(":")[2]))
    ages = {}
    for it in c["items"]:
        if it[0] == "K":
            i = c_int(it[1])
            if i is not None:
                ages.setdefault(i, []).append(it[2])
    ans = [t for t in r.split() if t[:2] in ("B:", "H:")]
    for op, a in zip(c["ops"], ans):
        if op[0] == "H" and a != "H:-":
            i = int(op[1:])
            if i not in created and not any(-305 <= g <= 425 for g in ages.get(i, [])):
                return "key %d served although no line for it is within the validity window (ages %s)" % (i, ages.get(i))
        if op == "B" and a != "B:-1":
            i = int(a[2:])
            if i not in created and not any(-305 <= g <= 305 for g in ages.get(i, [])):
                return "key %d announced for a new challenge although no line for it is recent (ages %s)" % (i, ages.get(i))
    return None


# ---------------------------------------------------------------------------
# leg 2b: the handshake-to-message boundary (C08_handshake_boundary): every cut set is run through the extracted
# transport model (Auth.Transport.trun on Auth.Handover.drive) and against the daemon
# ---------------------------------------------------------------------------
def boundary_cuts(rnd, tier, hs_len, begin_at, total):
    cuts = [[]]
    for i in range(max(1, begin_at - 2), min(total, hs_len + 3)):
        cuts.append([i])                                   # a single cut: before / inside / right after BEGIN CRLF, inside the first message
    for i in (hs_len + 8, hs_len + 16, hs_len + 17, 2047, 2048, 2049, 4096, total - 1):
        if 0 < i < total:
            cuts.append([i])
    for i in range(begin_at, hs_len + 1):
        cuts.append([i, hs_len])                           # inside BEGIN and exactly at the boundary
        cuts.append([i, hs_len + 5])
    cuts.append(list(range(1, min(total, hs_len + 40))))   # byte by byte through the handshake and into the first message
    for _ in range(10 if tier == "quick" else 300):
        k = rnd.choice((2, 3, 5))
        cuts.append(sorted(set(rnd.randrange(1, total) for _ in range(k))))
    return cuts


def run_boundary(ctx, stats):
    import socket
    sys.path.insert(0, os.path.join(vlib.VERIF, "harness", "py"))
    import rawbus
    rep, tier, info = ctx["rep"], ctx["tier"], ctx["info"]
    rnd = random.Random(ctx["seed"] + 11)
    mk = lambda serial, member: rawbus.Msg(rawbus.METHOD_CALL, 0, serial, {rawbus.F_PATH: "/org/freedesktop/DBus", rawbus.F_MEMBER: member,
                                           rawbus.F_INTERFACE: "org.freedesktop.DBus", rawbus.F_DESTINATION: "org.freedesktop.DBus"}).encode()
    ncalls = 41          # > 2048 and > 4096 bytes: the messages cannot all arrive in the read that completes the handshake
    msgs = mk(1, "Hello") + b"".join(mk(i, "GetId") for i in range(2, ncalls + 1))
    first = b"AUTH EXTERNAL " + h(str(PUID)) + b"\r\n"
    hs = first + b"BEGIN\r\n"
    stream = hs + msgs
    cutsets = boundary_cuts(rnd, tier, len(hs), len(first), len(stream))
    env = dict(uid=PUID, pid=os.getpid(), gids=None, mechs="*", fdp=1, ctx=None, keys=[], kdir="ok", steps=[], tag="boundary")
    base = model_line(env, {"fed": [], "steps": [], "end": {"keyfile": "-"}}, build_asserts(info))[0].replace("authm ", "xferm ", 1)
    mlines = ["%s stream=%s cuts=%s anon=0 uidfn=%d" % (base, stream.hex(), ".".join(str(c) for c in cs) or "-", PUID) for cs in cutsets]
    model, mcr = vlib.run_lines(info["model_auth"], mlines, shards=1)
    for cs, ml, m in zip(cutsets, mlines, model):
        f = dict(t.split("=", 1) for t in m.split() if "=" in t)
        if f.get("auth") != "1" or f.get("rec") != "1" or unhx(f.get("loader", "-")) != msgs or f.get("id", "").split("/")[0] != str(PUID):
            rep.violation("handshake boundary, cuts %s: the transport model gives %s (expected authenticated, hand-over done, loader input = the %d message bytes)"
                          % (cs[:8], m[:200], len(msgs)), {"model_input": ml, "names": "Auth.Transport.trun vs C08_handshake_boundary"}, found_input=False)
    d = rawbus.Daemon(info["daemon"])
    n_ok = 0
    try:
        for cs in cutsets:
            sk = socket.socket(socket.AF_UNIX, socket.SOCK_STREAM)
            sk.connect(d.sock)
            sk.settimeout(5.0)
            sk.sendall(b"\0")
            # the AUTH line first (cut as asked), then wait for OK like a real client: authentication then completes in the
            # read that brings BEGIN, with message bytes behind it and more already queued in the socket
            prev = 0
            for c in [x for x in cs if x < len(first)] + [len(first)]:
                sk.sendall(stream[prev:c])
                prev = c
            buf = bytearray()
            replies = []
            ok_line = False
            try:
                while b"\r\n" not in buf:
                    dd = sk.recv(65536)
                    if not dd:
                        break
                    buf += dd
            except (socket.timeout, OSError):
                pass
            for c in [x for x in cs if x > len(first)] + [len(stream)]:
                try:
                    sk.sendall(stream[prev:c])
                except OSError:
                    break
                prev = c
            try:
                while len(replies) < ncalls:
                    dd = sk.recv(65536)
                    if not dd:
                        break
                    buf += dd
                    if not ok_line and b"\r\n" in buf:
                        i = buf.index(b"\r\n")
                        ok_line = bytes(buf[:i]).startswith(b"OK ")
                        del buf[:i + 2]
                    while ok_line:
                        mm, nn = rawbus.parse_message(buf)
                        if mm is None:
                            break
                        del buf[:nn]
                        if mm.mtype in (rawbus.METHOD_RETURN, rawbus.ERROR):
                            replies.append((mm.mtype, mm.fields.get(rawbus.F_REPLY_SERIAL)))
            except (socket.timeout, OSError):
                pass
            sk.close()
            if replies != [(rawbus.METHOD_RETURN, i) for i in range(1, ncalls + 1)]:
                rep.violation("handshake boundary: handshake + %d calls written with cuts %s: OK line %s, %d replies %s... (expected one method return per call, in order)" % (ncalls, cs[:8], ok_line, len(replies), replies[:4]),
                              {"leg": "boundary", "cuts": cs, "stream_hex": stream.hex()})
            else:
                n_ok += 1
    finally:
        rc, err = d.stop()
        if rc not in (0, -15) or "ERROR: AddressSanitizer" in err or "runtime error" in err:
            rep.violation("daemon exited with %s / sanitizer output during the boundary leg: %s" % (rc, err[-800:]), {"leg": "boundary", "stderr": err[-3000:]})
    stats["boundary_cutsets"] = len(cutsets)
    stats["boundary_ok"] = n_ok


# ---------------------------------------------------------------------------
# leg 2c: unterminated-line floods against the daemon ("buffers no more than a fixed amount of handshake data")
# ---------------------------------------------------------------------------
READ_QUANTUM = 2048


def run_flood(ctx, stats):
    import socket, select
    sys.path.insert(0, os.path.join(vlib.VERIF, "harness", "py"))
    import rawbus
    rep, info = ctx["rep"], ctx["info"]
    d = rawbus.Daemon(info["daemon"])
    n_ok = 0
    tail = b"\r\nAUTH\r\n"
    sizes = (16383 - len(tail), MAX_BUFFER - len(tail), MAX_BUFFER - len(tail) + 1, 16385, 18 * 1024, 32 * 1024, 64 * 1024, 512 * 1024)
    try:
        for n in sizes:
            sk = socket.socket(socket.AF_UNIX, socket.SOCK_STREAM)
            sk.connect(d.sock)
            sk.settimeout(3.0)
            written, closed = 0, False
            try:
                sk.sendall(b"\0")
                for i in range(0, n, READ_QUANTUM):
                    sk.sendall(b"A" * min(READ_QUANTUM, n - i))
                    written += min(READ_QUANTUM, n - i)
                sk.sendall(tail)
            except OSError:
                closed = True
            lines, rest, eof = ([], b"", True) if closed else read_lines(sk, 2, 3.0)
            sk.close()
            replay = {"leg": "flood", "unterminated_bytes": n, "written_before_close": written, "answers": [l.decode("latin-1") for l in lines], "eof": eof or closed}
            # model-independent: the peer is unauthenticated; once more than MAX_BUFFER + one read quantum of bytes without a line end
            # have been taken, the server must have given up -- it must not still be there answering
            if n > MAX_BUFFER + READ_QUANTUM and lines:
                rep.violation("daemon accepted an unterminated handshake line of %d bytes from an unauthenticated peer (cap %d + one read of %d) and then answered %s "
                              "instead of disconnecting" % (n, MAX_BUFFER, READ_QUANTUM, [l[:40] for l in lines]), replay)
                continue
            # the size test runs on the whole buffer before a line is looked at; between the two bounds the outcome depends on how
            # the daemon's reads happen to fall
            expect_closed = n > MAX_BUFFER
            if not expect_closed and n + len(tail) > MAX_BUFFER:
                n_ok += 1
                continue
            if expect_closed and lines:
                rep.violation("daemon flood of %d bytes: answers %s, model: disconnect" % (n, [l[:40] for l in lines]),
                              dict(replay, names="correspondence daemon vs Auth.Server.work (MAX_BUFFER)"), found_input=False)
            elif not expect_closed and [l.split(b" ")[0] for l in lines] != [b"ERROR", b"REJECTED"]:
                rep.violation("daemon flood of %d bytes (below the cap): answers %s, model: ERROR then REJECTED" % (n, [l[:40] for l in lines]),
                              dict(replay, names="correspondence daemon vs Auth.Server.work (MAX_BUFFER)"), found_input=False)
            else:
                n_ok += 1
            if not d.alive():
                rep.violation("daemon died during the flood leg: %s" % d.stderr()[-600:], replay)
                break
    finally:
        rc, err = d.stop()
        if rc not in (0, -15) or "ERROR: AddressSanitizer" in err or "runtime error" in err:
            rep.violation("daemon exited with %s / sanitizer output during the flood leg: %s" % (rc, err[-800:]), {"leg": "flood", "stderr": err[-3000:]})
    stats["flood_sizes"] = len(sizes)
    stats["flood_ok"] = n_ok


def gen_aux(rnd, tier):
    """SHA-1, hex decoding and uid parsing: library vs model vs an independent implementation"""
    lines, expect = [], []
    for n in list(range(0, 200)) + [255, 256, 257, 1000, 4096]:
        b = bytes(rnd.randrange(256) for _ in range(n))
        lines.append(("sha1", b))
    for _ in range(300 if tier == "quick" else 5000):
        n = rnd.choice((0, 1, 2, 3, 4, 7, 8, 20))
        lines.append(("hexdec", bytes(rnd.choice(b"0123456789abcdefABCDEFg zG\x00") for _ in range(n))))
    for s in UIDSTRS:
        lines.append(("uidstr", s))
    for _ in range(300 if tier == "quick" else 5000):
        n = rnd.choice((1, 2, 3, 5, 20, 21))
        lines.append(("uidstr", bytes(rnd.choice(b"0123456789 +-xXabfF\t\n") for _ in range(n))))
    return lines


def run_aux(ctx, stats):
    rep, tier, info = ctx["rep"], ctx["tier"], ctx["info"]
    rnd = random.Random(ctx["seed"] + 3)
    cases = [(k, b) for (k, b) in gen_aux(rnd, tier) if b"\x00" not in b or k != "uidstr" or True]
    impl, icr = vlib.run_lines(info["auth_h"], ["%s %s" % (k, hx(b)) for k, b in cases])
    model, mcr = vlib.run_lines(info["model_auth"], ["%sm %s" % (k, hx(b)) for k, b in cases])
    for line, err in icr:
        rep.violation("implementation crashed / sanitizer report on input `%s`: %s" % (line[:300], err[-700:]), {"impl_input": line, "stderr": err})
    for (k, b), i, m in zip(cases, impl, model):
        if i == "!CRASH":
            continue
        if k == "sha1":
            ref = hashlib.sha1(b).hexdigest()
            lib, mine = i.split()
            if lib != ref:
                rep.violation("_dbus_sha_compute(%s) = %s, SHA-1 is %s" % (hx(b)[:80], lib, ref), {"cmd": "sha1", "input": hx(b), "impl": i})
            elif mine != ref or m != ref:
                rep.violation("SHA-1 of %s: harness %s model %s reference %s" % (hx(b)[:80], mine, m, ref),
                              {"cmd": "sha1", "input": hx(b), "names": "correspondence Auth.Sha1.sha1 / harness my_sha1 vs hashlib"}, found_input=False)
        elif i != m:
            rep.violation("%s %s: implementation `%s`, model `%s`" % (k, hx(b), i, m),
                          {"cmd": k, "input": hx(b), "impl": i, "model": m, "names": "correspondence auth_h/%s vs Auth.Server" % k}, found_input=False)
    stats["aux"] = len(cases)


def run(ctx):
    rep, tier, info = ctx["rep"], ctx["tier"], ctx["info"]
    rnd = random.Random(ctx["seed"])
    known = load_known()
    stats = {}
    cases = []
    for f in sorted(glob.glob(os.path.join(vlib.VERIF, "corpus", "C08", "*.json"))):
        for c in json.load(open(f)):
            c["steps"] = [tuple((unhx(x) if (i in (1, 2) and s[0] in "FR") else x) for i, x in enumerate(s)) for s in c["steps"]]
            c["steps"] = [(s[0], None) if s[0] == "S" and s[1] in (None, "*") else s for s in c["steps"]]
            c["ctx"] = None if c.get("ctx") is None else unhx(c["ctx"])
            c["keys"] = [tuple(k) for k in c.get("keys", [])]
            c.setdefault("tag", "corpus")
            cases.append(c)
    cases += gen_identity(rnd, tier) + gen_cookie(rnd, tier) + gen_boundary(rnd, tier) + gen_crashy(rnd, tier) + gen_chunkings(rnd, tier)
    cases += gen_exhaustive(tier) + gen_random(rnd, tier)
    t0 = time.time()
    dist, nontrivial, nrun = run_leg1(ctx, cases, known, stats)
    t1 = time.time()
    run_aux(ctx, stats)
    ctx["known"] = known
    run_keyring(ctx, stats)
    t2 = time.time()
    run_leg2(ctx, known, stats)
    run_boundary(ctx, stats)
    run_flood(ctx, stats)
    t3 = time.time()
    # violations that carry a failing input first (only the first ten are printed)
    rep.violations.sort(key=lambda v: not v[2])
    sample_idx = list(range(0, len(cases), max(1, len(cases) // 10)))[:10]
    rep.coverage.update({
        "evaluations": nrun + stats.get("aux", 0) + stats.get("keyring", 0) + stats.get("daemon_scripts", 0) + stats.get("boundary_cutsets", 0),
        "daemon_floods": stats.get("flood_sizes", 0), "daemon_floods_consistent": stats.get("flood_ok", 0),
        "boundary_cutsets": stats.get("boundary_cutsets", 0), "boundary_cutsets_answered": stats.get("boundary_ok", 0),
        "keyring_cases": stats.get("keyring", 0), "keyring_cases_serving_a_key": stats.get("keyring_nontrivial", 0),
        "distinct_nontrivial": len(nontrivial),
        "rule": "in-process: corpus, identity strings (%d uid spellings x socket uids, both as initial response and as DATA), cookie exchanges "
                "(7 keyring contents x 3 directory states x 6 response variants x 4 separators, wrong secrets, contexts, retry / OK-CANCEL-other-mechanism orders), "
                "buffer caps (lines of 16383..16386 bytes in 3 chunkings, 600..700 unanswered replies), 4..8 rejections by 6 causes, bytes around BEGIN, "
                "every 2-cut of 5 scripts, all command sequences up to length %d over a 16-command alphabet in %d environments, %d random scripts "
                "(rich alphabet, random chunking and write-out); non-trivial = ends authenticated, or a distinct (line sequence, mechanism set) judged by the specification oracle"
                % (len(UIDSTRS), 3 if tier == "quick" else 4, len(ENVS), 2500 if tier == "quick" else 120000),
        "samples": [{"input": impl_line(cases[i])[:400]} for i in sample_idx],
        "input_distribution": dist,
        "traces_validated_against_impl": nrun,
        "spec_oracle_evaluated": stats.get("spec_checked", 0),
        "disagreements_checked": stats.get("disagree", 0),
        "single_process_cases": stats.get("single", 0),
        "known_finding_hits": {k: v for k, v in stats.items() if k.startswith("F08")},
        "daemon_scripts": stats.get("daemon_scripts", 0), "daemon_scripts_consistent": stats.get("daemon_ok", 0),
        "aux_cases": stats.get("aux", 0),
        "seconds": {"in_process": round(t1 - t0, 1), "aux": round(t2 - t1, 1), "daemon": round(t3 - t2, 1)},
        "exhaustive": False,
        "explanation": "theorems hold for every byte sequence, chunking and environment of the model; the model is tied to dbus/dbus-auth.c by running both on the "
                       "same bytes with the environment the implementation showed (challenges, keyring) and comparing all output after every step, the end state, "
                       "the identity and the unused bytes; the extracted specification is evaluated on every case below the buffer cap",
    })
    rep.assumptions = [
        "model coq/Auth/Server.v is hand-written after dbus/dbus-auth.c; the three state-handler switches, command and mechanism tables, max_failures, MAX_BUFFER, "
        "N_CHALLENGE_BYTES and all protocol words are regenerated from the C source on every run (tools/gen/auth.py)",
        "allocation failure is not modelled; the keyring file handling (dbus-keyring.c), the user database and the random source are environment parameters of the model, "
        "instantiated per case with what the implementation showed; SHA-1 (Auth/Sha1.v) is compared with _dbus_sha_compute and hashlib on %d inputs, not proved" % 205,
        "_dbus_auth_set_context keeps the tail of the default context (dead API, not reachable through a DBusServer); the harness mirrors this when naming the keyring file",
        "transport layer (Auth/Transport.v) is checked against the daemon only at the level: answers, is Hello answered, GetConnectionCredentials",
    ]
