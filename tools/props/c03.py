"""C03 — the bus stamps the true sender; unique names are unique forever.

Implementation side: a fresh dbus-daemon (ASan/UBSan build of /repo's tree) per history, raw-wire clients
(harness/py/stamp_run.py); model side: coq/Stamp/Stamp.v extracted (ml/stamp); comparison and the
specification oracle: harness/py/stamp_check.py; generator: harness/py/stamp_gen.py.
create_unique_client_name itself is additionally lifted out of bus/driver.c by tools/gen/stamp.py and run
from counter states no daemon run can reach (registered names that force the skip loop, INT_MAX)."""
import concurrent.futures, glob, json, os, random, re, sys
import vlib
sys.path.insert(0, os.path.join(vlib.VERIF, "harness", "py"))
import stamp_check as sc
import stamp_gen as sg
import stamp_run as sr

MLS = ("stamp",)
HARNESSES = ()
THEOREMS = ["C03_stamp_sender", "C03_stamp_clean", "C03_stamp_intact", "C03_forged_irrelevant",
            "C03_sender_partial", "C03_every_delivery", "C03_sender_refuted", "C03_placeholder_is_no_name",
            "C03_unique", "C03_names_exact", "C03_name_form_injective", "C03_no_fault_below_bound", "C03_second_hello_refused",
            "C03_registry_only_hello", "C03_resolve_sound", "C03_departed_never_again", "C03_colon_request_refused", "C03_ex_no_squatting",
            "C03_release_only_live", "C03_relayed_message_received", "C03_field_position_independent", "C03_relay_wellformed", "C03_relay_bytes", "C03_relay_bytes_unique",
            "C03_minted_name_valid", "C03_mint_matches_c", "C03_constants_match_c", "C03_ex_hold_release", "C03_ex_hold_fail", "C03_ex_relay_bytes",
            "C03_ex_hypotheses_satisfiable", "C03_ex_names", "C03_ex_forwarded", "C03_ex_placeholder", "C03_ex_f13"]


def load_known():
    """recorded findings: the committed known-findings.json only"""
    known = {k["id"]: k for k in vlib.load_known("C03")}
    p = ""      # only the committed known-findings.json is consulted at run time
    if os.path.exists(p):
        for k in json.load(open(p)):
            if k.get("property") == "C03" and k.get("status") == "known":
                known.setdefault(k["id"], k)
    return known


def load_corpus():
    out = []
    for p in sorted(glob.glob(os.path.join(vlib.VERIF, "corpus", "C03", "*.json"))):
        d = json.load(open(p))
        d = d.get("replay", d)
        out.append(("corpus:" + os.path.basename(p)[:-5], int(d["maxc"]), list(d["events"]), [list(a) for a in d.get("acts", [])]))
    return out


def gen_cases(tier, rnd):
    cases = load_corpus() + sg.scenarios()
    n = 1100 if tier == "quick" else 16000
    for i in range(n):
        maxc, ev, acts = sg.gen_history(rnd, rnd.randrange(6, 42))
        cases.append(("gen%d" % i, maxc, ev, acts))
    return cases


def run_impl(daemon, cases):
    nproc = min(16, os.cpu_count() or 4)
    chunks = [(daemon, [(i, c[1], c[2], c[3]) for i, c in list(enumerate(cases))[j::nproc * 4]]) for j in range(nproc * 4)]
    impl = [None] * len(cases)
    with concurrent.futures.ProcessPoolExecutor(max_workers=nproc) as ex:
        for res in ex.map(sr.run_chunk, [c for c in chunks if c[1]]):
            for idx, out, probe, rc, err in res:
                impl[idx] = (out, probe, rc, err)
    return impl


# ---- create_unique_client_name, lifted -------------------------------------------------------------
def parse_tables():
    """the samples tools/gen/stamp.py obtained from the C text: [((major, minor, [names]), None | (name, major', minor'))]"""
    txt = open(os.path.join(vlib.COQ, "Gen", "StampTables.v")).read()
    blist = lambda s: bytes(int(x) for x in s.split(";") if x.strip())
    out = []
    for m in re.finditer(r"\(\(\((-?\d+)\)%Z, \((-?\d+)\)%Z, \[(.*?)\]\), (None|Some \(\[([\d;]*)\], \((-?\d+)\)%Z, \((-?\d+)\)%Z\))\)[;\]]", txt):
        names = [blist(x) for x in re.findall(r"\[([\d;]*)\]", m.group(3))]
        res = None if m.group(4) == "None" else (blist(m.group(5)), int(m.group(6)), int(m.group(7)))
        out.append(((int(m.group(1)), int(m.group(2)), names), res))
    return out


def check_mint(ctx, rep):
    samples = parse_tables()
    if len(samples) < 20:
        rep.violation("coq/Gen/StampTables.v could not be read back (%d samples)" % len(samples), {"names": "tools/props/c03.py parse_tables"}, found_input=False)
        return 0
    lines = ["mint %d %d %s" % (mj, mn, " ".join(vlib.hexs(n) for n in names)) for (mj, mn, names), _ in samples]
    res, crashes = vlib.run_lines(ctx["info"]["model_stamp"], lines, shards=1)
    for ((mj, mn, names), c_res), line, mres in zip(samples, lines, res):
        want = "fault" if c_res is None else "%s %d %d" % (vlib.hexs(c_res[0]), c_res[1], c_res[2])
        got = "fault" if mres.startswith("fault.") else mres
        if want == got:
            continue
        replay = {"function": "create_unique_client_name (bus/driver.c), lifted by tools/gen/stamp.py", "next_major_number": mj, "next_minor_number": mn,
                  "registered_names": [n.decode() for n in names], "c_result": None if c_res is None else [c_res[0].decode(), c_res[1], c_res[2]],
                  "model_result": mres, "model_line": line}
        bad = None
        if c_res is not None:
            nm, mj2, mn2 = c_res
            if nm in names:
                bad = "returns the name %s although it is registered" % nm.decode()
            elif not nm.startswith(b":"):
                bad = "returns a name that does not begin with ':'"
            elif (mj2, mn2) <= (mj, mn) and mn > 0:
                bad = "does not advance its counters (%d,%d) -> (%d,%d): the next call returns the same name again" % (mj, mn, mj2, mn2)
            elif nm != (":%d.%d" % (mj2, mn2 - 1)).encode():
                bad = "returns %s but leaves the counters at (%d,%d)" % (nm.decode(), mj2, mn2)
        if bad:
            rep.violation("create_unique_client_name started from counters (%d,%d) with registered names %s %s" % (mj, mn, [n.decode() for n in names], bad), replay)
        else:
            rep.violation("create_unique_client_name: C text gives %s, model gives %s for counters (%d,%d), registered %s" % (want, got, mj, mn, [n.decode() for n in names]),
                          dict(replay, names="Stamp.mint vs create_unique_client_name (Proofs/StampTie.v)"), found_input=False)
    return len(samples)


def run(ctx):
    rep, tier = ctx["rep"], ctx["tier"]
    rnd = random.Random(ctx["seed"])
    known = load_known()
    if ctx.get("replay"):
        d = json.load(open(ctx["replay"]))
        d = d.get("replay", d)
        cases = [(d.get("name", "replay"), int(d["maxc"]), list(d["events"]), [list(a) for a in d.get("acts", [])])]
    else:
        cases = gen_cases(tier, rnd)
    n_mint = check_mint(ctx, rep)
    lines = ["hist %d %s %s" % (m, ",".join(a[0].encode().hex() for a in acts) or "-", " ".join(e)) for _, m, e, acts in cases]
    mres, crashes = vlib.run_lines(ctx["info"]["model_stamp"], lines)
    for line, err in crashes:
        rep.violation("extracted model crashed: " + err[-300:], {"line": line[:2000], "names": "ml/stamp"}, found_input=False)
    impl = run_impl(ctx["info"]["daemon"], cases)
    stats, n_disagree, n_steps, nontrivial, n_valid = {}, 0, 0, set(), 0
    dist = {"histories_with_monitor": 0, "histories_hitting_connection_limit": 0, "events": 0, "sends": 0, "connects": 0, "disconnects": 0}
    samples = []
    for case, tokline, im in zip(cases, mres, impl):
        name, maxc, events, acts = case
        toks = tokline.split()
        replay = {"name": name, "maxc": maxc, "events": events, "acts": acts,
                  "how": "python3 tools/check.py C03 --replay <this file>   (events: C.<c> connect, D.<c> disconnect, S.<c>.<hex of one message>; "
                         "fresh dbus-daemon with max_completed_connections=maxc, one raw socket per client)"}
        out, probe, (rc, err), runerr = im
        if rc != 0 or "Sanitizer" in err or "runtime error" in err or "assertion failed" in err.lower():
            rep.violation("dbus-daemon ended with status %s / sanitizer or assertion output while replaying a history: %s" % (rc, err[-700:]), dict(replay, stderr=err[-3000:]))
            continue
        if runerr:
            rep.violation("harness could not replay a history: %s" % runerr, dict(replay, names="harness/py/stamp_run.py synchronisation"), found_input=False)
            continue
        n_valid += 1
        n_steps += len(events)
        dist["events"] += len(events)
        dist["sends"] += sum(1 for e in events if e[0] == "S")
        dist["connects"] += sum(1 for e in events if e[0] == "C")
        dist["disconnects"] += sum(1 for e in events if e[0] == "D")
        viol, hits, st = sc.oracle(case, im)
        diffs = sc.compare(case, toks, im)
        for k, v in st.items():
            if isinstance(v, int):
                stats[k] = stats.get(k, 0) + v
        if st["monitor_copies"]:
            dist["histories_with_monitor"] += 1
        if "LimitsExceeded" in repr([bytes.fromhex(h) for r in out if not r.get("ill") for hs in r["recv"].values() for h in hs]):
            dist["histories_hitting_connection_limit"] += 1
        if st["forwarded_copies"] or st["names_issued"] > 1 or st["local_replies"]:
            nontrivial.add((maxc, tuple(events)))
        for fid, sample in hits:
            if fid in known:
                rep.known(known[fid], sample)
            else:
                rep.violation("a client received a message without any SENDER field (finding %s is not recorded as known): %s" % (fid, sample), dict(replay, sample=sample))
        for k, text in viol:
            rep.violation(text, dict(replay, event_index=k, event=events[k][:200] if k < len(events) else "final ListNames/GetNameOwner probe"))
        if diffs and not viol:
            n_disagree += 1
            k, text = diffs[0]
            rep.violation("model and dbus-daemon disagree (the property's oracle accepts what the daemon did): " + text,
                          dict(replay, event_index=k, model=toks[k][:3000] if k < len(toks) else None, impl=out[k] if k < len(out) else None, all_differences=[d[1][:300] for d in diffs[:6]],
                               names="Stamp.step (extracted) vs dbus-daemon, harness/py/stamp_check.py compare"), found_input=False)
        elif diffs:
            n_disagree += 1
        if len(samples) < 8 and name.startswith("gen") and len(events) < 14:
            samples.append({"maxc": maxc, "events": [e[:60] for e in events], "model": [t[:60] for t in toks]})
    rep.coverage.update({
        "evaluations": len(cases) + n_mint, "distinct_nontrivial": len(nontrivial),
        "rule": "histories of 6-45 events over up to 7 raw clients against a fresh dbus-daemon each (max_completed_connections in {2,3,4,50}; 45%% with a "
                "BecomeMonitor connection that sees every message the bus handles): connect, Hello (proper; without INTERFACE; other path; with arguments; wrong "
                "interface; without DESTINATION; as a signal; repeated; after LimitsExceeded), disconnect and reconnect with reused client ids, RequestName (well-known "
                "names and forged ':N.M' names), AddMatch (incl. eavesdrop), driver queries, and messages of all four types, unicast to live / dead unique names and "
                "activatable names (55%% of the histories have service files: messages are kept, then released by a RequestName or bounced by a failing start, "
                "with writers leaving and ids being reused in between), RequestName with all 8 flag combinations / ReleaseName / GetNameOwner / ListQueuedOwners on "
                "names beginning with ':' (another live connection's, one's own, a departed one, a never minted one) interleaved with disconnects and messages to those names, "
                "well-known names, to the driver, and without DESTINATION, before and after Hello, both byte orders, flags incl. undefined bits; 60%% of the decorated "
                "messages carry a forged SENDER (other clients' names, org.freedesktop.DBus, :not.active.yet, ...) at a random position of the field array, 0-3 unknown "
                "field codes from {11,12,13,64,127,128,200,254,255,random} with random variant payloads of 22 type shapes, 35%% a CONTAINER_INSTANCE field; plus "
                "%d hand-written boundary histories and %d counter states of the lifted create_unique_client_name.  non-trivial = the history produced a forwarded "
                "copy, at least two unique names, or a libdbus-local reply; distinct = distinct (limit, event list)" % (len(sg.scenarios()), n_mint),
        "samples": samples, "input_distribution": dict(dist, **stats),
        "traces_validated_against_impl": n_valid, "steps_compared": n_steps, "disagreements_checked": n_disagree, "mint_states_compared": n_mint,
        "exhaustive": False,
        "explanation": "PROVED (Coq, all histories / all messages, any routing, policy and driver behaviour): see THEOREMS.  COMPARED on every generated history, "
                       "event by event: which sockets the bus closes, and every message any client receives: byte-for-byte against the model's stamped "
                       "message for forwarded copies (what each OTHER raw socket and the monitor read), decoded skeleton (type, flags, all fields, body; not the "
                       "serial, not error texts) for bus-originated ones, per-receiver order.  ORACLE (independent decoder, implementation behaviour only): sender "
                       "= the name the bus itself told the writer in its Hello reply (or :not.active.yet at a monitor), no unknown / duplicated / "
                       "CONTAINER_INSTANCE field, every other field, flags, serial, signature and body as written; names begin with ':', pairwise distinct over the "
                       "whole history, at most one per connection, consistent with NameAcquired / NameOwnerChanged / ListNames / GetNameOwner; RequestName / ReleaseName of a ':' name is always refused, GetNameOwner / "
                       "ListQueuedOwners of a ':' name answer that name alone and only while its Hello-holder lives, a message addressed to ':x.y' reaches (besides monitors and "
                       "eavesdroppers) only the connection Hello named ':x.y'.  BYTE LEVEL: C03_relay_bytes proves that the model's relayed bytes decode to exactly "
                       "the received message with SENDER replaced and the untrusted-only fields removed; the run shows the daemon writes those very bytes.  ONLY EXPLORED, "
                       "not proved: counters near INT_MAX on the real daemon (the lifted function is run there instead), out-of-memory paths, the containers "
                       "feature (compiled out), match-rule / policy decisions (parameters of the model).",
    })
    rep.assumptions = [
        "model coq/Stamp/Stamp.v is hand-written after bus/dispatch.c, bus/driver.c, bus/connection.c, bus/services.c and dbus/dbus-connection.c; tied to the code by the correspondence run and, for create_unique_client_name and the two stamped constants, by Gen/StampTables.v (Proofs/StampTie.v)",
        "who receives a forwarded message (routing, match rules, policy, monitors) and every driver method except Hello are parameters of the model; the theorems hold for all instantiations",
        "the byte-level effect of the three header edits is Wire.HeaderEdit (C12's correspondence); here it is re-checked end to end through the daemon",
        "every event is fully processed before the next one is written (round trips); concurrent writers are not explored",
        "messages a client writes are valid (they load); invalid ones are C01's subject and only disconnect the writer",
        "per-user connection limits, out-of-memory paths, SELinux/AppArmor, the (compiled-out) containers feature and a monitor that keeps sending are outside the model",
    ]
