"""C19 — auto-started services get held messages once, in order, or callers get errors; the activation
helper executes only for a valid name whose service file declares that name, an Exec and a User."""
import json, os, random, sys, time
sys.path.insert(0, os.path.dirname(os.path.dirname(os.path.abspath(__file__))))
import vlib
sys.path.insert(0, os.path.join(vlib.VERIF, "harness", "py"))
import activation_check as ac
import activation_gen as ag
import activation_files as af
import activation_oracle as ao

MLS = ("activation",)
HARNESSES = (("activation_h", ["libdbus-daemon-internal.a"]),)
THEOREMS = ["C19_ledger", "C19_one_fate", "C19_spawn_once", "C19_no_spawn_while_waiting", "C19_held_once_in_order",
            "C19_failure_each_waiter_once", "C19_timeout_each_waiter_once", "C19_exit_zero_ignored",
            "C19_failure_own_name_partial", "C19_failure_own_name_refuted", "C19_one_fate_refuted", "C19_unique_name_not_delivered",
            "C19_reload_keeps_pending", "C19_held_once_in_order_across_reload",
            "C19_exec_line_quoting", "C19_exec_unclosed_quote_refused",
            "C19_table_is_first_valid", "C19_lookup_fresh", "C19_lookup_after_removal_refuted", "C19_table_accepts_unique_name",
            "C19_helper", "C19_helper_name_in_directory", "C19_helper_wellknown", "C19_helper_refuted", "C19_helper_total"]
LEVEL = "proof"

FLAVOURS = ["plain"] * 6 + ["limit", "limit", "timed", "uniq"]


def bus_cases(tier, rnd):
    cases = list(ag.scenarios()) + list(ag.uniq_scenarios()) + load_corpus()
    n = 220 if tier == "quick" else 4000
    for i in range(n):
        fl = rnd.choice(FLAVOURS)
        cases.append(("gen%d-%s" % (i, fl),) + ag.gen_history(rnd, fl))
    for i in range(n // 2):
        cases.append(("burst%d" % i,) + ag.gen_burst(rnd))
    return cases


def load_corpus():
    out = []
    d = os.path.join(vlib.VERIF, "corpus", "C19")
    if os.path.isdir(d):
        for fn in sorted(os.listdir(d)):
            if fn.endswith(".json"):
                for c in json.load(open(os.path.join(d, fn))).get("histories", []):
                    out.append((c["label"], c["maxp"], [tuple(s) for s in c["services"]], c["timed"], c["events"]))
    return out


def nontrivial_classes(events, mtoks):
    """coarse classes of what a history exercised (measured on the model's tokens, which the daemon agreed with)"""
    cl = set()
    started = False
    for ev, t in zip(events, mtoks):
        if ev[0] in "ZV" and started and t != "!":
            cl.add("reload-after-a-start" if ev[0] == "Z" else "service-files-changed-after-a-start")
        if "sp." in t:
            started = True
        if t in ("-", "!", "~"):
            continue
        parts = t.split("+")
        if any(p.startswith("sp.") for p in parts):
            cl.add("spawn")
        nf = len([p for p in parts if ":f." in p])
        if ev.startswith("R.") and nf:
            cl.add("held-delivered-%s" % ("many" if nf > 1 else "one"))
        if ev.startswith("R.") and any(":s." in p for p in parts):
            cl.add("start-reply-success")
        if ev.startswith("R.") and any("AccessDenied" in p for p in parts):
            cl.add("held-refused-at-delivery")
        if ev[0] in "XG" and any(":e." in p for p in parts):
            cl.add("fail-exit-%s" % ("many" if len([p for p in parts if ":e." in p]) > 1 else "one"))
        if ev.startswith("F."):
            cl.add("fail-exec")
        if ev == "T" and any("TimedOut" in p for p in parts):
            cl.add("fail-timeout")
        if ev[0] == "B" and any(p.startswith("sp.") for p in parts):
            cl.add("signal-starts-service")
        if ev[0] in "ABS" and any("LimitsExceeded" in p for p in parts):
            cl.add("limit")
        if ev[0] in "ABS" and any("InvalidArgs" in p for p in parts):
            cl.add("exec-does-not-parse")
        if ev[0] in "AB" and any("AccessDenied" in p for p in parts):
            cl.add("refused-at-activation")
        if ev[0] == "S" and any(":s." in p and p.endswith(".2") for p in parts):
            cl.add("already-running")
        if ev.startswith("R.") and any("NotSupported" in p for p in parts):
            cl.add("held-refused-no-fd-passing")
        if ev.startswith("R.") and any("LimitsExceeded" in p for p in parts):
            cl.add("held-refused-reply-limit")
        if ev in ("C", "CF") or ev.startswith("K.") or ev.startswith("KF."):
            if any(":s." in p for p in parts):
                cl.add("unique-name-start-reply")
    return cl


def check_daemon_health(rep, rec):
    info = rec["info"]
    err = info.get("stderr", "")
    if info.get("rc") not in (0, None) or "AddressSanitizer" in err or "runtime error" in err or "assertion failed" in err.lower():
        rep.violation("dbus-daemon crashed or reported a sanitizer/assertion failure during an activation history (exit %s): %s" % (info.get("rc"), err[-600:]),
                      {"history": replay_of(rec["case"]), "stderr": err[-3000:]})
        return False
    return True


def hist_text(case):
    return ac.hist_line(case)


def replay_of(case):
    label, maxp, services, timed, events = case
    return {"label": label, "maxp": maxp, "services": [list(s) for s in services], "timed": timed, "events": events,
            "how": "python3 tools/props/c19.py --history '<this json>' (model tokens vs dbus-daemon tokens)"}


def run_bus_part(ctx, rnd):
    rep, tier, info = ctx["rep"], ctx["tier"], ctx["info"]
    cases = bus_cases(tier, rnd)
    res, crashes = ac.run_bus(info["daemon"], info["model_activation"], cases)
    # histories that differ are run once more before they are believed (timing-dependent waits under load)
    again = [i for i, r in enumerate(res) if r["status"] in ("differ", "aborted")]
    if again:
        if any(res[i]["status"] == "aborted" for i in again):
            with vlib.Lock():                 # a rebuild by a concurrent check may have had the binaries away for a moment
                pass
        res2, _ = ac.run_bus(info["daemon"], info["model_activation"], [cases[i] for i in again], procs=2)
        for i, r2 in zip(again, res2):
            r2["first_run"] = {"status": res[i]["status"], "impl": res[i].get("impl"), "info": {k: v for k, v in res[i]["info"].items() if k != "stderr"}}
            if r2["status"] == "agree":
                r2["flaky"] = True
            res[i] = r2
    stats = {"agree": 0, "differ": 0, "aborted": 0, "model-error": 0, "flaky": 0, "steps": 0, "nontrivial_distinct": 0}
    nontrivial_seen = set()
    known = load_known()
    classes, dist = set(), {}
    seen = set()
    for r in res:
        stats[r["status"]] += 1
        if r.get("flaky"):
            stats["flaky"] += 1
        key = (r["case"][1], tuple(r["case"][2]), r["case"][3], tuple(r["case"][4]))
        seen.add(key)
        check_daemon_health(rep, r)
        if r["status"] == "agree":
            stats["steps"] += len(r["case"][4])
            cl = nontrivial_classes(r["case"][4], r["model_raw"])
            classes |= cl
            if cl - {"spawn"} and key not in nontrivial_seen:
                nontrivial_seen.add(key)
                stats["nontrivial_distinct"] += 1
            for c in cl:
                dist[c] = dist.get(c, 0) + 1
            n_sp = sum(t.count("sp.") for t in r["model_raw"])
            noexec = sum(1 for ev in r["case"][4] if ev.startswith("F."))
            if r["info"]["starts_logged"] != n_sp - noexec or r["info"]["registered"] != n_sp - noexec:
                rep.violation("process-start log disagrees with the bus's own account: model/daemon say %d processes were started (%d of them not executable), "
                              "the start log has %d lines, %d processes registered" % (n_sp, noexec, r["info"]["starts_logged"], r["info"]["registered"]),
                              {"history": replay_of(r["case"])})
        elif r["status"] == "differ":
            diffs = [(i, e, m, t) for i, (e, m, t) in enumerate(zip(r["case"][4], r["model"], r["impl"])) if m != t]
            verdicts = ao.run_oracle(r["case"][2], r["case"][4], r["impl_raw"])
            kn, unknown = ao.classify(r["case"][2], verdicts)
            rep.violation("model and dbus-daemon disagree on activation history %s at step %d (%s): model %s, daemon %s%s" % (
                r["case"][0], diffs[0][0], diffs[0][1], diffs[0][2], diffs[0][3],
                (" — the daemon's behaviour breaks the property: %s" % (unknown[:2],)) if unknown else " — the daemon's behaviour satisfies the trace oracle; the model is off"),
                {"history": replay_of(r["case"]), "model": r["model"], "daemon": r["impl"], "first_run": r.get("first_run"), "oracle": verdicts,
                 "names": "Activation.step vs bus/activation.c"}, found_input=bool(unknown))
        if r["status"] == "agree":
            # model = daemon; the property itself, judged on what the daemon did
            verdicts = ao.run_oracle(r["case"][2], r["case"][4], r["impl_raw"])
            kn, unknown = ao.classify(r["case"][2], verdicts)
            for fid, vs in kn.items():
                entry = [k for k in known if k["id"] == fid]
                if entry:
                    rep.known(entry[0], {"history": hist_text(r["case"]), "verdict": list(vs[0])})
                else:
                    unknown += vs
            if unknown:
                rep.violation("dbus-daemon (and the model) break the property on history %s: %s" % (r["case"][0], unknown[:3]),
                              {"history": replay_of(r["case"]), "daemon": r["impl"], "oracle": unknown})
            stats["oracle_checked"] = stats.get("oracle_checked", 0) + 1
    return res, stats, classes, dist, len(seen)


def run_parser_part(ctx, rnd):
    rep, tier, info = ctx["rep"], ctx["tier"], ctx["info"]
    n_shell, n_desk = (12000, 12000) if tier == "quick" else (300000, 300000)
    shells = list(af.SHELL_FIXED) + [af.gen_shell(rnd) for _ in range(n_shell)]
    desks = list(af.DESK_FIXED) + [af.gen_desk(rnd, {b"Name": b"t.N1", b"Exec": b"/bin/x 'a b'", b"User": b"root"}) for _ in range(n_desk)]
    for c in range(256):                                    # every byte as key character, section character, value byte
        desks.append(af.SEC + b"\nNa" + bytes([c]) + b"me=v\n")
        desks.append(b"[a" + bytes([c]) + b"b]\n" + af.SEC + b"\nName=v\n")
        desks.append(af.SEC + b"\nName=a" + bytes([c]) + b"b\n")
        desks.append(af.SEC + b"\nName=a\\" + bytes([c]) + b"b\n")
        shells.append(b"a" + bytes([c]) + b"b")
        shells.append(b'"a\\' + bytes([c]) + b'b"')
        shells.append(b"a\\" + bytes([c]) + b"b")
    # C19_exec_line_quoting on the real parser: every argv comes back from its canonical quoting
    quoted = {}
    for _ in range(1500 if tier == "quick" else 40000):
        argv = [bytes(rnd.choice([39, 39, 92, 34, 32, 10, 9, 35, 36, 96, 97, 98, 47, 255, 1, rnd.randint(1, 255)]) for _ in range(rnd.randint(0, 6))) for _ in range(rnd.randint(1, 4))]
        line = b" ".join(b"'" + a.replace(b"'", b"'\\''") + b"'" for a in argv)
        quoted["shell " + line.hex()] = "ok " + ",".join(a.hex() or "-" for a in argv)
    lines = ["shell " + (s.hex() or "-") for s in shells] + list(quoted) + ["desk " + (d.hex() or "-") for d in desks]
    lines = list(dict.fromkeys(lines))
    ires, icr = vlib.run_lines(info["activation_h"], lines)
    mres, mcr = vlib.run_lines(info["model_activation"], lines)
    for l, e in icr:
        rep.violation("harness activation_h crashed (sanitizer/assertion) on: %s: %s" % (l[:200], e[-600:]), {"line": l, "stderr": e})
    diffs = 0
    outcome = {}
    nontrivial = 0
    special = set(b"\"'\\#\n\t ")
    for l, i, m in zip(lines, ires, mres):
        k = l.split(" ")[0] + ":" + i.split(" ")[0]
        outcome[k] = outcome.get(k, 0) + 1
        raw = bytes.fromhex(l.split(" ")[1]) if l.split(" ")[1] != "-" else b""
        if (l.startswith("shell") and special & set(raw)) or (l.startswith("desk") and b"[" in raw and b"=" in raw):
            nontrivial += 1
        if l in quoted and i != quoted[l] and i != "!CRASH":
            rep.violation("_dbus_shell_parse_argv does not give back an argument vector from its canonical quoting: `%s` -> %s, expected %s" % (l[:200], i[:200], quoted[l][:200]),
                          {"line": l, "impl": i, "expected": quoted[l], "theorem": "C19_exec_line_quoting"})
        if i != m and i != "!CRASH":
            diffs += 1
            if diffs <= 5:
                rep.violation("parser model and implementation disagree on `%s`: implementation %s, model %s" % (l[:300], i[:200], m[:200]),
                              {"line": l, "impl": i, "model": m, "names": "Helper.shell_parse / Helper.desktop_load vs dbus-shell.c / desktop-file.c"},
                              found_input=True)
    return len(lines), diffs, outcome, nontrivial


def run_cache_part(ctx, rnd):
    """the bus's service-file cache: bus_activation_new / bus_activation_reload / activation_find_entry in-process (bus/activation.c is
    compiled into the harness) on real directories, against Cache.reload / Cache.find_entry; every lookup is also judged by
    Spec.ActivationSpecCache.spec_lookup on the files as they are"""
    rep, tier, info = ctx["rep"], ctx["tier"], ctx["info"]
    n = 2500 if tier == "quick" else 60000
    cases = list(af.CACHE_FIXED) + [af.gen_cache_case(rnd) for _ in range(n)]
    il = [af.cache_impl_line(c) for c in cases]
    ires, icr = vlib.run_lines(info["activation_h"], il)
    for l, e in icr:
        rep.violation("harness activation_h crashed (sanitizer/assertion) in the service-file cache on: %s: %s" % (l[:300], e[-600:]), {"line": l, "stderr": e})
    ml = [af.cache_model_line(c, r) if r != "!CRASH" else None for c, r in zip(cases, ires)]
    idx = [i for i, m in enumerate(ml) if m]
    mres, _ = vlib.run_lines(info["model_activation"], [ml[i] for i in idx])
    sres, _ = vlib.run_lines(info["model_activation"], ["cachespec" + ml[i][len("cachem"):] for i in idx])
    known = {k["id"]: k for k in load_known()}
    stats = {"cases": len(cases), "compared": len(idx), "lookups": 0, "lookups_hit": 0, "reloads": 0, "stale_answers": 0, "diffs": 0, "nontrivial": 0}
    for i, m, sp in zip(idx, mres, sres):
        flags, ops = cases[i]
        impl = af.cache_strip_order(ires[i])
        if impl != m:
            stats["diffs"] += 1
            if stats["diffs"] <= 5:
                rep.violation("service-file cache: model and bus/activation.c disagree on `%s`: implementation %s, model %s" % (il[i][:300], impl[:300], m[:300]),
                              {"line": il[i], "model_line": ml[i], "impl": impl, "model": m, "names": "Cache.reload / Cache.find_entry vs bus_activation_reload / activation_find_entry"},
                              found_input=True)
            continue
        # the specification's answer for every lookup, on the files as they are
        results = [t.split("/")[0] for t in impl.split(" ")]
        spec = sp.split(" ")
        changed = False
        k = 0
        interesting = False
        for op in ops:
            if op[0] in "WRXM":
                changed = True
            elif op[0] == "L":
                changed = False
                stats["reloads"] += 1
                k += 1
            else:
                stats["lookups"] += 1
                if results[k] != "none":
                    stats["lookups_hit"] += 1
                    interesting = True
                if results[k] != spec[k]:
                    if changed and "F19.4" in known:
                        stats["stale_answers"] += 1
                        rep.known(known["F19.4"], {"line": il[i][:200], "lookup": op[1].decode("latin1"), "answer": results[k][:80], "specification": spec[k][:80]})
                    else:
                        rep.violation("activation_find_entry answers %s for %r where the first valid service file in search order is %s (%s)" % (
                            results[k][:120], op[1], spec[k][:120], "files changed since the last reload, no finding recorded" if changed else "cache freshly built: C19_lookup_fresh says this cannot happen"),
                            {"line": il[i], "lookup": op[1].hex(), "answer": results[k], "specification": spec[k]})
                k += 1
        if interesting:
            stats["nontrivial"] += 1
    return stats


def run_helper_part(ctx, rnd):
    rep, tier, info = ctx["rep"], ctx["tier"], ctx["info"]
    helper_exe = os.path.join(vlib.DBUS_BUILD, "bin", "dbus-daemon-launch-helper-for-tests")
    if not os.path.exists(helper_exe):
        rep.violation("dbus-daemon-launch-helper-for-tests was not built", {"names": "build"}, found_input=False)
        return 0, 0, {}, []
    n = 3500 if tier == "quick" else 80000
    stub = b"@STUB@"
    cases = []
    fixed_file = af.SEC + b"\nName=%s\nExec=@STUB@ a 'b c'\nUser=root\n"
    for nm in af.NAME_POOL:                                # every pooled name with a perfectly good file for it
        fn = nm + b".service"
        if b"/" in fn or b"\0" in nm or len(fn) > 250 or nm in (b"",):
            cases.append((nm, True, [{}]))
        else:
            cases.append((nm, True, [{fn: fixed_file % nm}]))
    for _ in range(n):
        cases.append(af.gen_helper_case(rnd, stub))
    cases = [c for c in cases if b"\0" not in c[0]]
    lines = [af.helper_line(c) for c in cases]
    mres, mcr = vlib.run_lines(info["model_activation"], lines)
    ires = af.run_helper_cases(helper_exe, cases, workers=min(12, vlib.NPROC))
    diffs, outcome, samples = 0, {}, []
    reached_file = set()
    for c, l, m, (i, err) in zip(cases, lines, mres, ires):
        if not (i.startswith("exit 5") or i.startswith("exit 6")):
            reached_file.add(l)
        if "AddressSanitizer" in err or "runtime error" in err or "assertion failed" in err.lower() or i.startswith("exit 99") or i.startswith("exit -"):
            rep.violation("launch helper crashed or reported a sanitizer/assertion failure: %s %s" % (i, err[-500:]), {"case": l, "stderr": err[-3000:]})
            continue
        exp = af.expected_from_model(m)
        k = exp.split(" ")[0] + (" " + exp.split(" ")[1] if exp.startswith("exit") else "")
        outcome[k] = outcome.get(k, 0) + 1
        if exp != i:
            diffs += 1
            # spec oracle on the implementation's behaviour: did it execute something it must not?
            bad = i.startswith("exec") and not helper_spec_allows(c)
            if diffs <= 5 or bad:
                rep.violation("launch helper and model disagree on name %r: helper %s, model %s%s" % (c[0], i[:200], m[:200], " — and the helper EXECUTED although the property forbids it" if bad else ""),
                              {"case": l, "name": c[0].hex(), "impl": i, "model": m, "names": "Helper.helper vs bus/activation-helper.c"}, found_input=True)
        elif i.startswith("exec") and not helper_spec_allows(c):
            known_helper(rep, c, l, i)
        if len(samples) < 6 and i.startswith("exec"):
            samples.append({"name": c[0].decode("latin1"), "result": i[:120]})
    outcome["_reached_file_distinct"] = len(reached_file)
    return len(cases), diffs, outcome, samples


def spec_bus_name(s):
    """the D-Bus specification's bus-name grammar, written independently of the model (cf. Spec/NamesSpec.v)"""
    if not (0 < len(s) <= 255):
        return False
    uniq = s[:1] == b":"
    els = (s[1:] if uniq else s).split(b".")
    if len(els) < 2:
        return False
    for e in els:
        if not e:
            return False
        for j, ch in enumerate(e):
            ok = (65 <= ch <= 90) or (97 <= ch <= 122) or ch in (95, 45) or (48 <= ch <= 57 and (uniq or j > 0))
            if not ok:
                return False
    return True


def helper_spec_allows(case):
    """property text: execute only for a syntactically valid bus name whose file <name>.service in a configured directory
    declares exactly that name, an Exec line and a User.  Evaluated on the *input*, independently of model and code:
    some configured directory has the file and it contains the three declarations in the [D-BUS Service] group (textually)."""
    name, perm, dirs = case
    if not spec_bus_name(name):
        return False
    for d in dirs:
        c = d.get(name + b".service")
        if c is None:
            continue
        txt = c.replace(b"\r\n", b"\n").replace(b"\r", b"\n")
        if af.SEC not in txt:
            continue
        body = txt.split(af.SEC, 1)[1]
        import re
        if re.search(rb"(?m)^Name *= *" + re.escape(name) + rb"$", body) and re.search(rb"(?m)^Exec *=", body) and re.search(rb"(?m)^User *=", body):
            return True
    return False


def load_known():
    """recorded findings: the committed known-findings.json only"""
    known = {k["id"]: k for k in vlib.load_known("C19")}
    p = ""      # only the committed known-findings.json is consulted at run time
    if os.path.exists(p):
        for k in json.load(open(p)):
            if k.get("property") == "C19" and k.get("status") == "known":
                known.setdefault(k["id"], k)
    return list(known.values())


def known_helper(rep, case, line, impl):
    for k in load_known():
        if k["id"] == "F19.3" and case[0][:1] == b":" and not spec_bus_name(case[0]):
            rep.known(k, {"case": line[:160], "impl": impl[:80]})
            return
    rep.violation("launch helper executed a program for %r although the property's conditions do not hold (model agrees with the code)" % (case[0],),
                  {"case": line, "impl": impl})


def run(ctx):
    rep, tier = ctx["rep"], ctx["tier"]
    rnd = random.Random(ctx["seed"] * 7919 + 19)
    t0 = time.time()
    n_lines, pdiffs, poutcome, p_nontrivial = run_parser_part(ctx, rnd)
    t1 = time.time()
    n_helper, hdiffs, houtcome, hsamples = run_helper_part(ctx, rnd)
    cstats = run_cache_part(ctx, rnd)
    t2 = time.time()
    res, stats, classes, dist, distinct = run_bus_part(ctx, rnd)
    t3 = time.time()
    samples = []
    for r in res[:: max(1, len(res) // 8)]:
        if r["status"] == "agree":
            samples.append({"label": r["case"][0], "services": [list(s) for s in r["case"][2]], "events": " ".join(r["case"][4]), "daemon": " ".join(r["impl"])})
    rep.coverage.update({
        "evaluations": len(res) + n_lines + n_helper + cstats["cases"],
        "distinct_nontrivial": stats["nontrivial_distinct"] + houtcome.get("_reached_file_distinct", 0) + p_nontrivial + cstats["nontrivial"],
        "service_file_cache": cstats,
        "rule": "measured sum of four counts (the fourth: service-file cache cases with at least one successful lookup; see service_file_cache).  bus: %d distinct (configuration, event list) histories, %d of them non-trivial = daemon and model agreed and "
                "at least one step resolved, refused or failed an activation (classes reached: %s).  helper: %d distinct invocations in which the helper got as far "
                "as a service file (any outcome but name-invalid / not-found).  parsers: %d distinct inputs containing quoting/comment/blank characters "
                "(command lines) or a section header and a '=' (files).  outcome kinds: helper %s, parsers %s" % (
                    distinct, stats["nontrivial_distinct"], sorted(classes), houtcome.get("_reached_file_distinct", 0), p_nontrivial,
                    sorted(k for k in houtcome if not k.startswith("_")), sorted(poutcome)),
        "samples": samples[:8] + hsamples[:4],
        "input_distribution": {"bus_classes": dist, "bus_status": stats, "helper_outcomes": houtcome, "parser_outcomes": poutcome},
        "traces_validated_against_impl": stats["agree"], "steps_compared": stats["steps"],
        "disagreements_checked": stats["differ"] + pdiffs + hdiffs + cstats["diffs"], "flaky_histories_rerun": stats["flaky"], "aborted_histories": stats["aborted"],
        "parser_cases": n_lines, "helper_invocations": n_helper,
        "wall": {"parsers": round(t1 - t0, 1), "helper": round(t2 - t1, 1), "bus": round(t3 - t2, 1)},
        "exhaustive": False,
        "explanation": "PROVED (Coq, all histories, any policy, service tables naming well-known names): the bus's table of pending activations equals "
                       "the ledger of calls that arrived and have not met their fate, per name in arrival order (C19_ledger); no call ever meets two fates "
                       "(C19_one_fate); a process is started for a name only when nobody waits for it, one per step (C19_spawn_once); when the name is taken "
                       "the forwarded messages are exactly the waiting auto-start calls of connected senders that policy admits, in arrival order, the refused "
                       "ones get AccessDenied, StartServiceByName callers SUCCESS, nobody is left waiting (C19_held_once_in_order); exit != 0 / signal / exec "
                       "failure and the timeout answer every waiter of the affected activations exactly once (C19_failure_each_waiter_once, "
                       "C19_timeout_each_waiter_once), exit 0 is ignored; the helper calls execv only after the name check, for the first directory whose "
                       "<name>.service loads, with Name equal to the argument, an Exec that parses and a User (C19_helper), the name has no '/' or NUL and, "
                       "unless it starts with ':', satisfies the specification's grammar.  REFUTED with witnesses replayed on the daemon/helper: F19.1, F19.2, F19.3.  "
                       "EXPLORED ONLY (correspondence run, not proved about the C code): that bus/activation.c, desktop-file.c, dbus-shell.c and "
                       "activation-helper.c behave like the model: real dbus-daemon with generated service directories and scripted started processes "
                       "(start log, take the name fast / late / never / another name, exit status, signal, unexecutable, unparsable Exec), concurrent callers of both kinds, "
                       "real timeouts; dbus-daemon-launch-helper-for-tests on generated names and files; the two parsers in-process under ASan/UBSan.  "
                       "NOT COVERED: out-of-memory paths and transaction cancel hooks, systemd activation, the real setuid helper's permission checks and user switch "
                       "(abstract booleans in the model, compiled out of the test binary), service-file cache reloading, babysitter pipe protocol and fd inheritance.",
    })
    rep.assumptions = [
        "models coq/Activation/Activation.v and coq/Activation/Helper.v are hand-written after bus/activation.c, bus/dispatch.c, bus/services.c, bus/driver.c, "
        "bus/activation-helper.c, bus/desktop-file.c, dbus/dbus-shell.c; tied to the code by the correspondence run only",
        "policy is an abstract pair of predicates in the theorems; the correspondence run instantiates it with the three <deny> rules of harness/py/activation_impl.py (rule matching itself is C06's subject)",
        "every RequestName carries DO_NOT_QUEUE (only the primary owner matters; queues are C04's subject); every event is fully processed before the next one is written",
        "started processes are identified by the order in which the bus starts them; an exec failure is observed right after the start that caused it",
        "time: only the activation timeout is real (%d ms in timed histories, 10 min otherwise); histories that differ are re-run once before they are reported" % 1500,
        "the ghost outputs OGone (entry of a disconnected caller discarded) are not observable and not compared",
        "the helper is observed through dbus-daemon-launch-helper-for-tests (same activation-helper.c, ACTIVATION_LAUNCHER_TEST: no clearenv, permission check and setuid compiled out)",
        "known-finding entries are read from known-findings.json only",
    ]
    if stats["aborted"] > max(3, len(res) // 10):
        rep.violation("%d of %d activation histories could not be replayed on the daemon (harness aborted)" % (stats["aborted"], len(res)),
                      {"names": "harness", "example": [r["info"].get("aborted") for r in res if r["status"] == "aborted"][:3]}, found_input=False)


if __name__ == "__main__":
    # replay aid: python3 tools/props/c19.py --history '{"maxp":..,"services":[..],"timed":..,"events":[..]}'
    import argparse
    ap = argparse.ArgumentParser()
    ap.add_argument("--history")
    a = ap.parse_args()
    if a.history:
        h = json.loads(a.history)
        case = (h.get("label", "replay"), h["maxp"], [tuple(s) for s in h["services"]], h["timed"], h["events"])
        exe = vlib.build_ml("activation")
        res, _ = ac.run_bus(os.path.join(vlib.DBUS_BUILD, "bin", "dbus-daemon"), exe, [case], procs=1)
        r = res[0]
        print(r["status"])
        for e, m, i in zip(case[4], r.get("model", r["model_raw"]), r.get("impl") or []):
            print("  %-24s model %-50s daemon %s" % (e, m, i))
