"""C12, byte-level leg — the header editor of libdbus (_dbus_header_set_field_basic / _dbus_header_delete_field /
_dbus_header_remove_unknown_fields / the field-position cache behind the getters) against the byte-level model
coq/Wire/HeaderBytes.v, executed by ml/hdrbytes (`hedit`).

leg(ctx, rep, rnd, tier, only=None) generates loaded messages (both byte orders, known and unknown fields in any
order) and edit sequences aimed at the case splits of the editor and of its proof, runs `edit` on
ctx["info"]["wire_h"] (the real API) and `hedit` on the extracted model, and compares the header getters and the
whole message bytes after EVERY op.  Props/C12.v:C12_bytes_refinement says the model's bytes are the specification
encoding of the abstractly edited message, so agreement here ties the C editor (cache included: the getters run
after every op, through the cache) to the abstract editor of the other C12 theorems.  As a cross-check the abstract
editor itself (`edit` of the wire model) is run on the same lines: model != abstract editor would contradict the
theorem (it can only mean that a premise was violated by the generator or that the glue is off)."""
import os, struct, sys
import vlib
sys.path.insert(0, os.path.join(vlib.VERIF, "tools"))
sys.path.insert(0, os.path.join(vlib.VERIF, "harness", "py"))
import wiregen

MLS = ("hdrbytes",)
NAMES = "correspondence wire_h/edit (dbus-marshal-header.c editor + cache) vs Wire.HeaderBytes.hb_apply / hb_get (ml/hdrbytes hedit)"
KIND_CODE = {"path": 1, "iface": 2, "member": 3, "err": 4, "dest": 6, "sender": 7, "ci": 10}
KIND_SIG = {"path": "o", "iface": "s", "member": "s", "err": "s", "dest": "s", "sender": "s", "ci": "o"}


def encode_ordered(mtype, flags, serial, le, fields, sig="", body=()):
    """a message whose header fields are exactly `fields` = [(code, Variant)] in that order"""
    from rawbus import marshal, pad, split_sig
    e = "<" if le else ">"
    bb = bytearray()
    for t, v in zip(split_sig(sig), body):
        marshal(bb, t, v, le)
    buf = bytearray([ord("l") if le else ord("B"), mtype, flags, 1])
    buf += struct.pack(e + "II", len(bb), serial)
    marshal(buf, "a(yv)", list(fields), le)
    pad(buf, 8)
    return bytes(buf + bb)


def set_op(kind, n):
    """op token setting `kind` to a valid name of n bytes (n = 0: delete)"""
    if n == 0:
        return kind + "=~"
    return "%s=%s" % (kind, wiregen.name_of_len(n, kind).encode().hex())


def min_len(kind):
    return 3 if kind in ("iface", "err", "dest", "sender") else 1


def directed(rnd, tier):
    """(hex, ops) aimed at: old/new string lengths around the multiples of 8 (every pair in 0..24, 0 = absent /
    delete), the edited field first / in the middle / last, unknown fields (any type) in between, both byte orders,
    delete then re-add, set on an absent field, in-place u32 edits, strip; the getters after every op read the
    LATER fields through the cache"""
    from rawbus import Variant
    out = []
    kinds = ("member", "path", "dest") if tier != "quick" else None
    idx = 0
    for a in range(0, 25):
        for b in range(0, 25):
            for pos in ("first", "middle", "last"):
                for kind in (kinds or (("member", "path", "dest")[idx % 3],)):
                    idx += 1
                    lo = min_len(kind)
                    aa, bb = (a if a == 0 or a >= lo else lo), (b if b == 0 or b >= lo else lo)
                    le = (idx % 2 == 0)
                    # mandatory fields of a signal, the target, an unknown field, a later string field and a u32
                    others = [(c, Variant(s, v)) for c, s, v in ((1, "o", "/a"), (2, "s", "a.b"), (3, "s", "S"), (7, "s", ":1.7"), (5, "u", 9))
                              if c != KIND_CODE[kind]]
                    t = wiregen.rand_sct(rnd, rnd.choice((0, 1, 2)))
                    unk = (rnd.choice((11, 50, 255)), Variant(t, wiregen.rand_value(rnd, t)))
                    tgt = [(KIND_CODE[kind], Variant(KIND_SIG[kind], wiregen.name_of_len(aa, kind)))] if aa else []
                    if pos == "first":
                        fl = tgt + [unk] + others
                    elif pos == "last":
                        fl = others + [unk] + tgt
                    else:
                        fl = others[:2] + tgt + [unk] + others[2:]
                    if kind in ("member", "path") and not aa:
                        mtype = 2     # a method return needs neither
                    else:
                        mtype = 4
                    hx = encode_ordered(mtype, 0, 5, le, fl).hex()
                    ops = [set_op(kind, bb)]
                    if mtype == 2 and bb == 0 and kind in ("member", "path"):
                        pass
                    ops += ["rs=%d" % rnd.choice((1, 255, 2 ** 32 - 1)), set_op(kind, aa if aa else lo), set_op("sender", rnd.choice((3, 4, 5, 8, 9, 12, 13))), set_op(kind, bb)]
                    if rnd.random() < 0.15:
                        ops.insert(rnd.randrange(len(ops) + 1), "strip=1")
                    out.append((hx, ops, True))
    return out


def random_cases(rnd, n):
    """the generator of tools/props/c12.py: random valid messages, shuffled fields, unknown fields interleaved or first"""
    from props import c12
    from rawbus import Variant, FIELD_SIG
    out = []
    for _ in range(n):
        m = wiregen.rand_message(rnd, max_depth=rnd.choice((0, 1, 2)))
        if m.mtype not in (1, 2, 3, 4):
            m.mtype = 4
            m.fields.update({1: "/a", 2: "a.b", 3: "S"})
            m.order = None
        if rnd.random() < 0.4:
            t = wiregen.rand_sct(rnd, rnd.choice((0, 1, 2)))
            m.extra.append((rnd.choice((11, 50, 255)), Variant(t, wiregen.rand_value(rnd, t))))
        b = wiregen.encode(m)
        if rnd.random() < 0.5:
            # all fields, known and unknown, in one random order
            order = getattr(m, "order", None) or sorted(m.fields)
            fl = [(c, Variant(FIELD_SIG[c], m.fields[c])) for c in order if c in m.fields]
            if m.sig and 8 not in m.fields:
                fl.append((8, Variant("g", m.sig)))
            fl += list(m.extra)
            rnd.shuffle(fl)
            b = encode_ordered(m.mtype, m.flags, m.serial, m.le, fl, m.sig, m.body)
        ops = [c12.rand_op(rnd) for _ in range(rnd.choice((1, 2, 3, 5, 8, 12)))]
        out.append((b.hex(), ops, bool(m.extra)))
    return out


def build_cases(rnd, n):
    """locally built messages: dbus_message_new + setters applied back to back, NO getter in between (the cache stays
    invalidated between the edits), then set_serial, getters, marshal.  Directed: every (set K1, delete absent K2) and
    (set K1, set K1 again, delete absent K2) with the delete as the LAST edit; random: 1-8 setters of every kind."""
    kinds = list(KIND_CODE)
    out = []
    for k1 in kinds:
        for k2 in kinds:
            if k1 == k2:
                continue
            for n1 in (3, 7, 8, 12):
                out.append("%d 0 5 %s,%s" % (4, set_op(k1, n1), set_op(k2, 0)))
                out.append("%d 0 5 %s,%s,%s" % (1, set_op(k1, n1), set_op(k1, n1 + 5), set_op(k2, 0)))
                out.append("%d 0 5 %s,rs=7,%s,%s" % (2, set_op(k2, 4), set_op(k2, 0), set_op(k2, 0)))
    for _ in range(n):
        ops = []
        for _ in range(rnd.choice((1, 2, 3, 4, 6, 8))):
            r = rnd.random()
            k = rnd.choice(kinds)
            if r < 0.1:
                ops.append("rs=%d" % rnd.choice((1, 2, 255, 2 ** 32 - 1)))
            elif r < 0.15:
                ops.append("strip=1")
            elif r < 0.4:
                ops.append(k + "=~")
            else:
                ops.append(set_op(k, rnd.choice(list(range(1, 26)) + [40, 255])))
        out.append("%d %d %d %s" % (rnd.choice((1, 2, 3, 4)), rnd.choice((0, 1, 2, 3, 4, 7)), rnd.choice((1, 77, 2 ** 32 - 1)), ",".join(ops)))
    return out


def field_of(line, key):
    for tok in line.split(" "):
        if tok.startswith(key + "="):
            return tok[len(key) + 1:]
    return None


def strip_model(line):
    """the harness-format part of a model line, and the cache states"""
    parts = line.split("|")
    return "|".join(p.split("#")[0] for p in parts), [p.split("#")[1:] for p in parts]


def leg(ctx, rep, rnd, tier, only=None):
    info = ctx["info"]
    hmodel = info.get("model_hdrbytes") or vlib.build_ml("hdrbytes")
    if only is not None and only.startswith("build "):
        cases, ndirected = [], 0
    elif only is not None:
        hx, _, rest = only.strip().partition(" ")
        cases = [(hx, rest.split(), False)]
        ndirected = 0
    else:
        cases = directed(rnd, tier)
        ndirected = len(cases)
        cases += random_cases(rnd, 800 if tier == "quick" else 30000)
    lines_i = ["edit %s %s" % (h, " ".join(o)) for h, o, _ in cases]
    lines_m = ["hedit %s %s" % (h, " ".join(o)) for h, o, _ in cases]
    impl, icr = vlib.run_lines(info["wire_h"], lines_i)
    model, mcr = vlib.run_lines(hmodel, lines_m)
    abstract = None
    try:
        wmodel = info.get("model") or vlib.build_ml("wire")
        abstract, _ = vlib.run_lines(wmodel, lines_i)
    except Exception:
        abstract = None
    for line, err in icr:
        rep.violation("implementation crashed / asserted during header edits: `%s`: %s" % (line[:300], err[-700:]),
                      {"input": line.split(" ", 1)[1], "cmd": line, "stderr": err, "leg": "bytes"})
    for line, err in mcr:
        rep.violation("byte-level model driver crashed: `%s`: %s" % (line[:200], err[-300:]), {"input": line, "leg": "bytes", "names": NAMES}, found_input=False)
    stats = {"cases": len(cases), "directed": ndirected, "ops": 0, "ops_agree": 0, "lines_agree": 0, "big_endian": 0, "with_unknown_fields": 0,
             "op_kinds": {}, "cache_revalidations_seen": 0, "abstract_crosscheck": 0 if abstract is None else len(cases)}
    mism = 0
    for idx, ((hx, ops, unk), li, i, m) in enumerate(zip(cases, lines_i, impl, model)):
        replay = "%s %s" % (hx, " ".join(ops))
        if i == "!CRASH":
            continue
        if hx[:2] == "42":
            stats["big_endian"] += 1
        if unk:
            stats["with_unknown_fields"] += 1
        mh, caches = strip_model(m)
        if m == "!CRASH" or m.startswith("?"):
            if i == "corrupt":
                continue
            rep.violation("byte-level model driver could not load a message the implementation accepts (%s): %s" % (m[:40], replay[:200]),
                          {"input": replay, "model": m, "leg": "bytes", "names": NAMES}, found_input=False)
            continue
        if i == "corrupt":
            rep.violation("base message rejected by the implementation: %s" % replay[:200], {"input": replay, "impl": i, "leg": "bytes", "names": "generator vs loader"}, found_input=False)
            continue
        for o in ops:
            k = o.split("=")[0] + ("~" if o.endswith("=~") else "")
            stats["op_kinds"][k] = stats["op_kinds"].get(k, 0) + 1
        si, sm = i.split("|"), mh.split("|")
        stats["ops"] += len(ops)
        ok = True
        for k, (a, b) in enumerate(zip(si, sm)):
            if a == "refused":
                rep.violation("header edit refused at step %d (`%s`): %s" % (k, ops[k], replay[:300]), {"input": replay, "impl": i, "leg": "bytes", "names": "generator: value not accepted by the setter"}, found_input=False)
                ok = False
                break
            if b.startswith("!"):
                rep.violation("the byte-level model stops with `%s` at step %d (`%s`) where the implementation goes on: a premise of C12_bytes_refinement does not hold for this input, or the model is off: %s"
                              % (b, k, ops[k], replay[:300]), {"input": replay, "step": k, "impl": a, "model": b, "leg": "bytes", "names": NAMES}, found_input=False)
                ok = False
                break
            (ga, ba), (gb, bb) = a.split("@"), b.split("@")
            if ga != gb:
                rep.violation("after `%s` (step %d) the header getters (read through the field cache) differ from the proved model: impl %s model %s ; %s"
                              % (ops[k], k, ga, gb, replay[:300]), {"input": replay, "step": k, "impl_getters": ga, "model_getters": gb, "impl": ba, "model": bb, "leg": "bytes"})
                ok = False
                break
            if ba != bb:
                rep.violation("after `%s` (step %d) the message bytes differ from the proved byte-level model (= specification encoding of the edited message):\n impl  %s\n model %s\n %s"
                              % (ops[k], k, ba[:400], bb[:400], replay[:300]), {"input": replay, "step": k, "impl": ba, "model": bb, "leg": "bytes"})
                ok = False
                break
            stats["ops_agree"] += 1
        if ok and len(si) != len(sm):
            rep.violation("different number of results: impl %d model %d: %s" % (len(si), len(sm), replay[:200]), {"input": replay, "impl": i, "model": m, "leg": "bytes", "names": NAMES}, found_input=False)
            ok = False
        if ok:
            stats["lines_agree"] += 1
        else:
            mism += 1
        if any("cache=" in c and "U" not in c.split("=", 1)[1].split(",") for cs in caches for c in cs[:1]):
            stats["cache_revalidations_seen"] += 1
        if abstract is not None and ok and abstract[idx] != mh and not abstract[idx].startswith(("?", "corrupt")):
            rep.violation("byte-level model and abstract editor disagree (contradicts C12_bytes_refinement unless a premise fails): %s\n bytes-model %s\n abstract    %s"
                          % (replay[:200], mh[:300], abstract[idx][:300]), {"input": replay, "model": mh, "abstract": abstract[idx], "leg": "bytes", "names": "Wire.HeaderBytes vs Wire.HeaderEdit"}, found_input=False)
    # ---- locally built messages: edits without getters in between (`build` / `hbuild`) ----
    if only is None or only.startswith("build "):
        bcases = [only[6:]] if only is not None else build_cases(rnd, 600 if tier == "quick" else 20000)
        bi, bicr = vlib.run_lines(info["wire_h"], ["build " + b for b in bcases])
        bm, _ = vlib.run_lines(hmodel, ["hbuild " + b for b in bcases])
        for line, err in bicr:
            rep.violation("implementation crashed / asserted while building a message with header setters: `%s`: %s" % (line[:300], err[-700:]),
                          {"input": line, "stderr": err, "leg": "bytes"})
        stats["built"] = len(bcases)
        stats["built_agree"] = 0
        for b, i, m in zip(bcases, bi, bm):
            if i == "!CRASH":
                continue
            if i.startswith("refused"):
                rep.violation("setter refused while building (%s): %s" % (i[:60], b[:200]), {"input": "build " + b, "impl": i, "leg": "bytes", "names": "generator: value not accepted by the setter"}, found_input=False)
                continue
            if m.startswith(("!", "?")):
                rep.violation("the byte-level model stops with `%s` on a locally built message: %s" % (m[:40], b[:200]), {"input": "build " + b, "model": m, "leg": "bytes", "names": NAMES}, found_input=False)
                continue
            gi, gm, xi, xm = field_of(i, "getters"), field_of(m, "getters"), field_of(i, "bytes"), field_of(m, "bytes")
            if gi != gm:
                rep.violation("locally built message (setters back to back, no getter in between): the getters differ from the proved model: impl %s model %s ; build %s"
                              % (gi, gm, b[:300]), {"input": "build " + b, "impl_getters": gi, "model_getters": gm, "impl": xi, "model": xm, "leg": "bytes"})
                mism += 1
            elif xi != xm:
                rep.violation("locally built message (setters back to back, no getter in between): the marshalled bytes differ from the proved byte-level model:\n impl  %s\n model %s\n build %s"
                              % ((xi or "")[:400], (xm or "")[:400], b[:300]), {"input": "build " + b, "impl": xi, "model": xm, "leg": "bytes"})
                mism += 1
            else:
                stats["built_agree"] += 1
    stats["mismatch"] = mism
    stats["impl_crashes"] = len(icr)
    stats["samples"] = [lines_m[0][:240], lines_m[len(lines_m) // 2][:240]] if lines_m else []
    stats["rule"] = ("loaded messages x edit sequences, compared after every op (getters through the cache + whole message bytes): "
                     "directed = every pair (old, new) of string lengths 0..24 (0 = absent / delete; crossing every 8-byte boundary with and without the NUL) for member / path / destination, "
                     "the edited field first / in the middle / last, an unknown field of a random type (depth <= 2) next to it, both byte orders, followed by an in-place u32 edit, "
                     "a re-set, an edit of a LATER string field and the first edit again, sometimes strip; random = the C12 generator (1-12 ops: set / delete / reply serial / container "
                     "instance / strip) on random messages with all fields shuffled; built = dbus_message_new + 1-8 setters applied back to back with NO getter in between "
                     "(cache invalidated throughout), incl. every (set K1 [, set K1 again], delete absent K2 as the last edit), then set_serial, getters, marshal")
    return stats
