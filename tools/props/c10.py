"""C10 — one misbehaving client cannot crash, corrupt or stall the bus.

Proved (Props/C10.v): the logic core on the model Robust/Bus.v for every history and schedule.
Explored, NOT proved (this file + harness/py/robust_run.py): the C daemon (ASan+UBSan+assertions)
under generated attack scripts: memory safety, assertions, liveness, bystander latency, EOF for the
offender, nothing of an invalid message visible to anybody; and the correspondence of the daemon with
the extracted model on every script."""
import json, multiprocessing, os, random, re, sys, time, traceback
import vlib
sys.path.insert(0, os.path.join(vlib.VERIF, "harness", "py"))
sys.path.insert(0, os.path.join(vlib.VERIF, "tools"))
import robust_gen as rg
import robust_run as rr

MLS = ("robust", "wire")
HARNESSES = ("robust_h",)
LEVEL = "proof"
THEOREMS = ["C10_invalid_disconnects_sender_only", "C10_invalid_sender_gone_others_untouched", "C10_nothing_after_corruption",
            "C10_invalid_bytes_invisible", "C10_isolation_bytes", "C10_valid_prefix", "C10_isolation", "C10_preauth_silent", "C10_incomplete_bounded",
            "C10_accept_gate", "C10_setup_assertion_holds", "C10_env_run_is_run", "C10_loader_nothing_after_corruption",
            "C10_close_cleans_up", "C10_owned_covers_reachable", "C10_close_releases_slot", "C10_close_frame",
            "C10_close_outputs_prescribed", "C10_no_error_to_departed", "C10_expiry_exact",
            "C10_activation_failure_only_to_connected", "C10_no_activation_error_to_departed", "C10_activation_success_only_to_connected",
            "C10_no_watch_bounded_wakeup", "C10_no_spin"]

NWORKERS = min(6, max(2, (os.cpu_count() or 4) // 2))


def load_known():
    """recorded findings: the committed known-findings.json only"""
    known = {k["id"]: k for k in vlib.load_known("C10")}
    p = ""      # only the committed known-findings.json is consulted at run time
    if os.path.exists(p):
        for k in json.load(open(p)):
            if k.get("status") == "known":
                known.setdefault(k["id"], k)
            else:
                known.pop(k["id"], None)      # recorded as fixed here: if it comes back it is a violation, whatever the merged file still says
    return known


D1_TEXT = "arguments to dbus_message_set_reply_serial() were incorrect"


def script_line(s):
    c = s["cfg"]
    x = c.get("extra_limits", {})
    return "script2 %d %d %d %d %d %d %s" % (rg.UID, c["max_incomplete"], c["auth_timeout"], c["max_message_size"],
                                           x.get("max_connections_per_user", 256), x.get("max_match_rules_per_connection", 512), " ".join(s["events"]))


def watch_cases():
    """all watch lists of length 0..2 over enabled x {R, W, RW} (plus a few of length 3) x kernel condition {idle, data, peer closed}"""
    import itertools
    ws = ["e%do0f%d" % (e, f) for e in (0, 1) for f in (1, 2, 3)]
    out = []
    for ready in (2, 3, 11):
        out.append("watch %d" % ready)
        out += ["watch %d %s" % (ready, a) for a in ws]
        out += ["watch %d %s %s" % (ready, a, b) for a, b in itertools.product(ws, ws)]
        out += ["watch %d e0o0f1 e0o0f2 e0o0f3" % ready, "watch %d e0o0f1 e1o0f2 e0o0f3" % ready, "watch %d e1o0f1 e1o0f2 e1o0f3" % ready]
    return out


def parse_events(tokens):
    out = []
    for t in tokens:
        k, rest = t[0], t[1:]
        if k == "W":
            c, h = rest.split(":", 1)
            out.append(("W", int(c), bytes.fromhex(h) if h != "-" else b""))
        elif k == "S":
            out.append(("S", int(rest)))
        else:
            out.append((k, int(rest)))
    return out


def worker(args):
    """runs a batch of scripts of one configuration on one daemon (restarted after any problem)"""
    exe, cfg, batch = args
    results, daemons = [], []
    bus = None
    nbad = 0
    try:
        for idx, s, line in batch:
            if nbad >= 6:
                break            # a daemon this broken needs no more evidence; every missing effect costs a 5 s wait
            attempts = 2 if (s["cfg"]["auth_timeout"] < 60000 or s.get("timed")) else 1
            res = None
            for attempt in range(attempts):
                try:
                    if s.get("fresh") and bus is not None:
                        # this script wants a daemon of its own (predictable unique names; its health is judged on its own)
                        alive, rc, bad, err = bus.stop()
                        daemons.append({"alive": alive, "rc": rc, "san": bad[:20], "tail": err[-1500:] if (bad or not alive or rc != 0) else "", "after": None})
                        bus = None
                    if bus is None:
                        bus = rr.Bus(exe, cfg)
                    res = rr.run_script(bus, parse_events(s["events"]), rr.parse_groups(line), [bytes.fromhex(c) for c in s["canaries"]], s.get("blast"), tuple(s.get("noread", ())), bool(s.get("fresh")), s.get("throttle"),
                                        s["kind"].split(":")[0] in ("close", "flood", "blast", "quota", "throttle", "slots", "activation", "matrix"),
                                        0.1 if s["kind"] == "matrix" else 0.3)
                except Exception:
                    res = {"problems": [("violation", "executor exception (bus unusable?): " + " / ".join(traceback.format_exc().strip().split("\n")[-3:])[-400:])], "observed": [], "stats": {}}
                res["attempts"] = attempt + 1
                if s.get("fresh") and bus is not None and not res["problems"]:
                    # (a) after the close(s): the daemon must still be there, exit cleanly and have nothing in its sanitizer/assert log
                    alive, rc, bad, err = bus.stop()
                    bus = None
                    daemons.append({"alive": alive, "rc": rc, "san": bad[:20], "tail": err[-1500:] if (bad or not alive or rc != 0) else "", "after": idx, "reported": True})
                    if bad or not alive or rc not in (0, None):
                        res["problems"].append(("violation", "dbus-daemon %s (exit status %s) after this script: %s" % (
                            "DIED" if (not alive or rc not in (0, None)) else "complained", rc, " | ".join(bad[:4]) or err[-300:])))
                if res["problems"]:
                    if bus is not None:
                        try:
                            alive, rc, bad, err = bus.stop()
                        except Exception:
                            alive, rc, bad, err = False, None, [], traceback.format_exc()[-800:]
                        daemons.append({"alive": alive, "rc": rc, "san": bad[:20], "tail": err[-1500:] if (bad or not alive or rc != 0) else "", "after": idx,
                                        "reported": True})
                        if bad or not alive or rc not in (0, None):
                            res["problems"].insert(0, ("violation", "dbus-daemon %s (exit status %s) during this script: %s" % (
                                "DIED" if (not alive or rc not in (0, None)) else "complained", rc, " | ".join(bad[:4]) or err[-300:])))
                    bus = None
                    # only pure timing mismatches are worth another attempt
                    soft = all(k in ("mismatch", "late") for k, _ in res["problems"]) or (
                        s.get("timed") and not any(x in t for _, t in res["problems"] for x in ("DIED", "died", "no longer answers", "not answered", "AddressSanitizer")))
                    if soft and attempt + 1 < attempts:
                        continue
                    # an unregistered connection that is still there 5 s after its deadline, on every attempt, is no timing artefact
                    res["problems"] = [("violation" if k == "late" else k, t) for k, t in res["problems"]]
                break
            results.append((idx, res))
            if res["problems"]:
                nbad += 1
    finally:
        if bus is not None:
            lat = bus.lat
            alive, rc, bad, err = bus.stop()
            daemons.append({"alive": alive, "rc": rc, "san": bad[:20], "tail": err[-1500:] if (bad or not alive or rc != 0) else "", "after": None,
                            "lat_max": max(lat) if lat else 0, "lat_n": len(lat)})
    return results, daemons


def run(ctx):
    rep, tier, info = ctx["rep"], ctx["tier"], ctx["info"]
    rnd = random.Random(ctx["seed"])
    t0 = time.time()
    if ctx.get("replay"):
        rp = json.load(open(ctx["replay"]))
        scripts = [rp["replay"]["script"] if "script" in rp.get("replay", {}) else rp["script"]]
    else:
        scripts = []
        cdir = os.path.join(vlib.VERIF, "corpus", "C10")
        if os.path.isdir(cdir):
            for f in sorted(os.listdir(cdir)):
                if f.endswith(".json"):
                    scripts += json.load(open(os.path.join(cdir, f)))
        n_plain, n_flood, n_timed, n_blast = (1800, 16, 18, 10) if tier == "quick" else (16000, 160, 220, 80)
        n_close, n_slots, n_act, n_thr, n_mat = (60, 24, 30, 8, 500) if tier == "quick" else (1500, 500, 400, 100, 100000)
        gen = rg.generate(rnd, n_plain, n_flood, n_timed, n_blast, n_close, n_slots, n_act, n_thr, n_mat)
        if tier != "quick":
            big = rg.gen_quota(rnd, n=34000, cfg=rg.CFG_MAIN)      # the same with the DEFAULT max_outgoing_bytes (127 MiB)
            big["kind"] = "quota:default-limit"
            gen.append(big)
        have = {json.dumps(s["events"]) for s in scripts}
        scripts += [s for s in gen if json.dumps(s["events"]) not in have]
    lines = [script_line(s) for s in scripts]
    model, mcr = vlib.run_lines(info["model_robust"], lines, shards=min(vlib.NPROC, 8, max(1, len(lines) // 20)))
    for line, err in mcr:
        rep.violation("model driver crashed on `%s`: %s" % (line[:200], err[-300:]), {"input": line[:2000], "names": "ml/robust driver"}, found_input=False)
    # batches: one daemon per configuration per worker; timed scripts spread over all workers
    by_cfg = {}
    for i, (s, m) in enumerate(zip(scripts, model)):
        if m.startswith("!") or m.startswith("?"):
            rep.violation("the model driver failed (%s) on a %s script" % (m[:40], s["kind"]), {"script": s, "names": "ml/robust driver"}, found_input=False)
            continue
        by_cfg.setdefault(json.dumps(s["cfg"], sort_keys=True), []).append((i, s, m))
    jobs = []
    for key, items in by_cfg.items():
        cfg = json.loads(key)
        k = NWORKERS if len(items) >= 4 * NWORKERS else max(1, len(items) // 4)
        for j in range(k):
            part = items[j::k]
            if part:
                jobs.append((info["daemon"], cfg, part))
    jobs.sort(key=lambda j: -len(j[2]) * (50 if (j[1]["auth_timeout"] < 60000 or j[1].get("services")) else 1))
    with multiprocessing.Pool(min(len(jobs), NWORKERS + 2) or 1) as pool:
        outs = pool.map(worker, jobs, chunksize=1)
    results, daemons = {}, []
    for r, d in outs:
        results.update(dict(r))
        daemons += d
    # ---- the watch / poll-set logic of the main loop: Robust.Watch.iterate vs dbus-mainloop.c (harness/c/robust_h.c), exhaustive small cases
    wl = watch_cases()
    wm, _ = vlib.run_lines(info["model_robust"], wl)
    wi, wcr = vlib.run_lines(info["robust_h"], wl, shards=min(vlib.NPROC, 16)) if info.get("robust_h") else ([], [])
    for line, err in wcr:
        rep.violation("main-loop harness crashed on `%s`: %s" % (line, err[-400:]), {"input": line, "stderr": err})
    # the harness measures "woke" by the clock (a 120 ms blocking iteration that ends within 60 ms): re-run disagreeing cases once, alone
    watch_viol = []
    redo = [k for k, (a, b) in enumerate(zip(wm, wi)) if a != b and b != "!CRASH"]
    if redo and info.get("robust_h"):
        again, _ = vlib.run_lines(info["robust_h"], [wl[k] for k in redo], shards=1)
        for k, b in zip(redo, again):
            wi[k] = b
    for l, a, b in zip(wl, wm, wi):
        if a != b and b != "!CRASH":
            ma, mb = re.match(r"woke=(\d),(\d)", a), re.match(r"woke=(\d),(\d)", b)
            if mb and mb.group(2) == "1" and "handled=" in b and b.endswith(",0"):
                watch_viol.append((0.5, "main loop: `%s`: a descriptor wakes a later iteration although no handler runs on it (%s; model %s): the loop spins on it" % (l, b, a),
                                   {"cmd": l, "impl": b, "model": a}, True))
            else:
                watch_viol.append((1, "main loop: `%s`: dbus-mainloop.c %s, model %s" % (l, b, a), {"cmd": l, "impl": b, "model": a, "names": "correspondence robust_h/watch vs Robust.Watch.iterate"}, False))
    # ---- verdicts
    known = load_known()
    kinds, nontrivial, dist = {}, set(), {}
    stats = {"seen": 0, "gone": 0, "hi": 0, "lat_max": 0.0, "retried_timed": 0}
    n_viol = 0
    pending_viol = []
    for i, s in enumerate(scripts):
        res = results.get(i)
        fam = s["kind"]
        dist[fam] = dist.get(fam, 0) + 1
        if res is None:
            continue
        if res["problems"] and s["kind"].startswith("quota") and any(D1_TEXT in t for _, t in res["problems"]) and "C10-D1" in known:
            # the daemon aborted in the way recorded as finding C10-D1 (model and property say it must survive)
            rep.known(known["C10-D1"], {"script": s["kind"], "events": len(s["events"]), "daemon": [t for _, t in res["problems"] if D1_TEXT in t][0][:160]})
            stats["known_finding_scripts"] = stats.get("known_finding_scripts", 0) + 1
            continue
        st = res.get("stats", {})
        if s["kind"] == "hand:act-eof-delay" and not res["problems"] and st.get("eof_wait_max", 0) > 0.5 and "C10-D2" in known:
            rep.known(known["C10-D2"], {"script": s["kind"], "eof_after_s": round(st["eof_wait_max"], 3)})
        for k in ("seen", "gone", "hi"):
            stats[k] += st.get(k, 0)
        stats["lat_max"] = max(stats["lat_max"], st.get("lat_max", 0.0))
        stats["blast_bytes"] = stats.get("blast_bytes", 0) + st.get("blast_bytes", 0)
        stats["blast_roundtrips"] = stats.get("blast_roundtrips", 0) + st.get("blast_roundtrips", 0)
        stats["blast_lat_max"] = max(stats.get("blast_lat_max", 0.0), st.get("blast_lat_max", 0.0))
        stats["idle_cpu_max"] = max(stats.get("idle_cpu_max", 0.0), st.get("idle_cpu_max", 0.0))
        stats["idle_samples"] = stats.get("idle_samples", 0) + (1 if "idle_cpu_max" in st else 0)
        stats["throttled"] = stats.get("throttled", 0) + (1 if st.get("throttled") else 0)
        if res.get("attempts", 1) > 1:
            stats["retried_timed"] += 1
        if st.get("gone", 0) or st.get("seen", 0) > 1:
            nontrivial.add(lines[i])
        for kind, text in res["problems"][:3]:
            n_viol += 1
            replay = {"script": s, "model": model[i][:4000], "observed": res.get("observed", [])[-6:], "cmd": "python3 tools/check.py C10 --replay <this file>"}
            if kind == "violation":
                pending_viol.append((0, "[%s] %s" % (fam, text), replay, True))
            else:
                replay["names"] = "correspondence harness/py/robust_run.py (dbus-daemon) vs Robust.Env/Robust.Bus (extracted)"
                pending_viol.append((1, "[%s] daemon and model disagree: %s" % (fam, text), replay, False))
    # property breaches with a concrete input first (the report shows only the first few)
    for _, text, replay, found in sorted(pending_viol + watch_viol[:3], key=lambda v: v[0]):
        rep.violation(text, replay, found_input=found)
    for d in daemons:
        if (d["san"] or d["rc"] not in (0, None) or not d["alive"]) and not d.get("reported") and not any(D1_TEXT in x for x in d["san"]):
            # the script after which it happened has its own entry if it was noticed; report the log in any case
            s = scripts[d["after"]] if d.get("after") is not None else None
            rep.violation("dbus-daemon: exit status %s, alive before stop: %s, sanitizer/assert lines: %s" % (d["rc"], d["alive"], d["san"][:5]),
                          {"script": s, "log_tail": d["tail"], "cmd": "python3 tools/check.py C10 --replay <this file>"}, found_input=s is not None)
    # which validity codes the corrupted messages of the mutation family hit (wire model of C01; statistics only)
    reasons = {}
    if info.get("model_wire"):
        bl = ["load m " + b for s in scripts for b in s.get("bad", [])]
        out, _ = vlib.run_lines(info["model_wire"], bl)
        for o in out:
            m = re.search(r"corrupted=(\d) reason=(-?\d+) msgs=(\S+)", o)
            if m:
                key = "still-valid" if m.group(1) == "0" and m.group(3) != "-" else ("incomplete" if m.group(1) == "0" else "invalid:" + m.group(2))
                reasons[key] = reasons.get(key, 0) + 1
    lat_all = [d.get("lat_max", 0) for d in daemons]
    attack_bytes = sum(len(e) // 2 for s in scripts for e in s["events"] if e[0] == "W")
    rep.coverage.update({
        "evaluations": len(scripts), "distinct_nontrivial": len(nontrivial),
        "rule": "attack scripts for 1-9 hostile raw sockets, executed on the ASan+UBSan+assert dbus-daemon with a monitor, a signal observer and a well-behaved pair "
                "attached, and on the extracted model (Robust.Env over Robust.Bus/Mini): mutation of random valid traffic (byte at any offset biased to header fields, 32-bit words "
                "set to limit values incl. max_message_size+-1 / 2^27+-1 / 2^32-1, insertions, deletions, fixed-header fields, garbage) between valid messages, cut into "
                "random writes; fixed headers with limit-valued length words followed by silence; valid streams cut at any byte then closed; handshake abuse "
                "(non-NUL first byte, 2047..40000-byte lines, 5-9 rejected attempts, commands out of order, binary garbage, messages before BEGIN); unregistered clients "
                "(traffic before Hello, malformed/repeated Hello, no-destination messages); floods of 300-1500 messages never read back; messages of max_message_size-9..+1000; "
                "5-9 simultaneous unauthenticated connections against max_incomplete_connections=4; auth_timeout=1000 ms expiry with waiting connections; "
                "abrupt close (plain / invalid stream / monitor that sends) with outstanding state — pending calls to itself by unique and by owned name, answered or flagged no-reply, "
                "to and from others, names owned with others queued and the reverse, match rules, being a monitor, a half-written message, an unread queue — each on a daemon of "
                "its own (unique names predictable: NameOwnerChanged and NoReply compared with the model, daemon exit status and sanitizer log judged per script); "
                "activations in progress at the moment of close (service files: Exec exits 1 after 300 ms / never claims its name with service_start_timeout 900 ms / name claimed "
                "by a connection of the script): 1-4 requesters by auto-starting calls with and without reply expected, directed signals, NO_AUTO_START, StartServiceByName; "
                "first / some / all requesters close before the outcome; the error or success replies (requester, serial) are compared with the model; "
                "registration / match-rule accounting (max_connections_per_user = bystanders + 3, max_match_rules_per_connection = 4): refusals at the limit, success once "
                "somebody has left by close / invalid stream / as a monitor that closes, a monitor keeping its slot; "
                "hand-written boundary scenarios. non-trivial = the model disconnects somebody or dispatches more than one hostile message",
        "samples": [{"kind": scripts[i]["kind"], "events": [e[:60] for e in scripts[i]["events"][:8]], "model": model[i][:160]} for i in range(0, len(scripts), max(1, len(scripts) // 8))][:8],
        "input_distribution": dict(dist, **{"hostile_messages_dispatched": stats["seen"], "disconnects_by_bus": stats["gone"], "registrations": stats["hi"],
                                            "attack_bytes": attack_bytes, "timed_scripts_retried": stats["retried_timed"],
                                            "mutated_message_verdicts(validity code: count)": dict(sorted(reasons.items())),
                                            "concurrent_flood_bytes": stats.get("blast_bytes", 0), "round_trips_during_floods": stats.get("blast_roundtrips", 0),
                                            "worst_latency_during_floods_s": round(stats.get("blast_lat_max", 0.0), 4),
                                            "idle_cpu_samples": stats.get("idle_samples", 0), "idle_cpu_fraction_max": round(stats.get("idle_cpu_max", 0.0), 3),
                                            "throttle_scripts_in_which_the_bus_stopped_reading": stats.get("throttled", 0)}),
        "traces_validated_against_impl": len(results), "disagreements_checked": n_viol,
        "bystander_latency_max_s": round(max([stats["lat_max"]] + lat_all), 4), "latency_bound_s": rr.LAT_BOUND,
        "main_loop_watch_cases": len(wl), "daemons": len(daemons), "daemon_exit_statuses": sorted({str(d["rc"]) for d in daemons}),
        "attack_wall_s": round(time.time() - t0, 1),
        "explanation": "PROVED (Coq, all histories/schedules, on the model): a connection whose stream is found invalid is dropped and nothing but the effects of its valid "
                       "message prefix and of its disconnection reaches the bus core or any other connection (C10_invalid_disconnects_sender_only, C10_nothing_after_corruption, "
                       "C10_isolation_bytes [byte level: = the history in which the offender sent its valid message prefix and disconnected; unconditional, via Proofs/LoadLocal.v] and C10_isolation [message level: refinement to the ideal bus], C10_preauth_silent); incomplete connections never exceed "
                       "max_incomplete_connections and never outlive auth_timeout (C10_incomplete_bounded), the setup assertion cannot fail; after a disconnect no pending-reply entry mentions the connection and no NoReply is addressed to it (C10_close_cleans_up, C10_no_error_to_departed, on the extracted core). "
                       "EXPLORED ONLY (harness, this run): absence of crashes / sanitizer reports / assertion failures / spinning in the C daemon, bounded latency of bystander "
                       "round trips, EOF at the offender, no canary of an undispatched message at any bystander; and daemon = model on every script (monitor trace, handshake bytes, EOF).",
    })
    rep.assumptions = [
        "the model Robust/Bus.v is hand-written after dbus-transport*.c, bus/connection.c, bus/bus.c, bus/dispatch.c; tied to the code by the correspondence run only",
        "runtime robustness of the C daemon (memory safety, assertions, liveness, latency) is explored by generated attacks on a sanitizer build, not proved",
        "every client action is fully processed before the next one (TIOCOUTQ = 0, then a bystander round trip); truly concurrent writers are explored only by the floods",
        "handshake replies are assumed to fit the socket buffer (a client that never reads its handshake replies is not modelled); live-message throttling (max_incoming_bytes) is not reached",
        "timing scripts assume that non-sleep steps take well under 200 ms; a timed script that disagrees is re-run once",
        "all clients run as the daemon's uid (EXTERNAL only); per-user and completed-connection limits are not reached",
    ]
