"""C01 (accessor clause) -- the reader model (coq/Wire/Reader.v: DBusTypeReader as a cursor machine) against the real
iterator API.

leg(ctx, rep, rnd, tier): generates valid messages (wiregen.rand_message + directed shapes), loads them with the
implementation (`load d <hex>` of wire_h: dump through dbus_message_iter_*), runs the extracted reader model on the
body bytes + signature (`read <le|be> <sig-hex> <body-hex>` of build/ml/reader/model) and compares the two dumps as
strings.  On a difference the specification decoder (`spec1 <hex>` of the wire driver) decides which side is wrong:
implementation != spec  -> violation of C01 (accessor clause) with the input;
implementation == spec != model -> correspondence failure of the reader model (found_input=False).
"""
import os, struct, sys
import vlib
sys.path.insert(0, os.path.join(vlib.VERIF, "tools"))
import wiregen
from rawbus import Msg, Variant

MLS = ("reader",)

FIXED = {"y": 1, "b": 4, "n": 2, "q": 2, "i": 4, "u": 4, "x": 8, "t": 8, "d": 8, "h": 4}
ALIGN1 = ("y", "g", "v")
ALIGN4 = ("s", "o", "ai", "ay", "a{yy}")
ALIGN8 = ("(y)", "(yy)", "x", "{sv}")


def sample_value(t, k=0):
    """a deterministic small value of single complete type t"""
    c = t[0]
    if c == "y":
        return (7 + k) & 255
    if c == "b":
        return bool(k & 1)
    if c in "nqiuxth":
        return k + 1
    if c == "d":
        return 1.5 + k
    if c == "s":
        return "s%d" % k
    if c == "o":
        return "/o%d" % k
    if c == "g":
        return ("", "i", "a{sv}", "(ii)", "aai")[k % 5]
    if c == "v":
        return Variant("q", 3 + k)
    if c == "a":
        et = t[1:]
        if et[0] == "{":
            ks, vs = wiregen.split_sig(et[1:-1])
            return [(sample_value(ks, i), sample_value(vs, i)) for i in range(k % 3)]
        return [sample_value(et, i) for i in range(k % 3)]
    if c in "({":
        return tuple(sample_value(x, k + i) for i, x in enumerate(wiregen.split_sig(t[1:-1])))
    raise ValueError(t)


def directed(rnd, tier):
    """shapes aimed at the case splits of the reader: alignment of array starts (len_offset 0 / 4), empty arrays at every
    offset, arrays of every fixed-size type (get_fixed_array path), nested variants, dict entries, nesting to 32/64"""
    out = []
    base = {1: "/a", 2: "a.b", 3: "S"}

    def add(sig, body, le=True):
        out.append(Msg(4, 0, 1, base, sig, tuple(body), le=le))
    elem_types = list(FIXED) + ["s", "o", "g", "v", "ai", "ay", "as", "av", "a{yy}", "a{sv}", "(y)", "(yx)", "(sv)", "(ay)", "aay", "a(yy)", "(a{ss}y)"]
    for le in (True, False):
        # empty and short arrays of every element alignment at every offset 0..8 (a run of bytes in front)
        for et in elem_types:
            for off in range(9):
                for n in (0, 1, 2, 3):
                    vals = []
                    for i in range(n):
                        vals.append(sample_value(et, i))
                    sig = "y" * off + "a" + et + "y"
                    add(sig, [1 + i for i in range(off)] + [vals] + [0xEE], le)
        # arrays of fixed types with many elements, and arrays of arrays of them (inner empties at every position)
        for c in FIXED:
            add("a" + c, [[sample_value(c, i) for i in range(17)]], le)
            add("aa" + c, [[[], [sample_value(c, 1)], [], [sample_value(c, 2), sample_value(c, 3)], []]], le)
            add("a{y" + c + "}", [[(i, sample_value(c, i)) for i in range(4)]], le)
            add("(ya" + c + "y)", [(1, [sample_value(c, 5)], 2)], le)
        # strings of every length mod 8 next to every alignment
        for L in range(0, 18):
            for nxt in ("y", "n", "i", "x", "s", "(y)", "ay", "ax", "v"):
                add("s" + nxt, ["x" * L, sample_value(nxt, L)], le)
            add("as", [["x" * L, "", "y" * (L // 2)]], le)
            add("g" + "x", ["i" * L, 5], le)
        # variants: every contained alignment at every offset; nested variants; variants holding containers
        for ct in ("y", "n", "i", "x", "s", "g", "ay", "ax", "as", "(y)", "(yx)", "a{sv}", "v", "a(yv)", "av", "aai"):
            for off in range(8):
                add("y" * off + "v" + "y", [9] * off + [Variant(ct, sample_value(ct, off)), 0xEE], le)
        # length bytes with the top bit set: variant signatures and signature values of 120..255 bytes (one-byte length words
        # read as signed char would go negative at 128)
        for k in (118, 125, 126, 127, 128, 129, 200, 253):
            ssig = "(" + "y" * k + ")"
            add("yvy", [7, Variant(ssig, tuple((i * 7 + 1) % 256 for i in range(k))), 0xEE], le)
            add("vv", [Variant(ssig, tuple(range(k))), Variant("s", "after")], le)
            add("gy", ["y" * (k + 2), 5], le)
            add("av", [[Variant(ssig, tuple(range(k))), Variant("y", 3)]], le)
        for depth in (1, 2, 3, 10, 31, 32, 33, 62, 63):
            v = Variant("ay", [1, 2, 3])
            for _ in range(depth):
                v = Variant("v", v)
            add("vy", [v, 1], le)
        # dict entries: every key type, value containers
        for kt in "ybnqiuxtdsogh":
            add("a{" + kt + "v}", [[(sample_value(kt, i), Variant("s", "v%d" % i)) for i in range(3)]], le)
            add("a{" + kt + "(ss)}", [[(sample_value(kt, i), ("a", "b")) for i in range(2)]], le)
            add("a{" + kt + "a{" + kt + "y}}", [[(sample_value(kt, 0), [(sample_value(kt, 1), 1), (sample_value(kt, 2), 2)]), (sample_value(kt, 3), [])]], le)
        # nesting to the limits: 32 arrays, 32 structs, mixed
        for k in (1, 2, 16, 31, 32):
            v = 7
            for _ in range(k):
                v = [v]
            add("a" * k + "y", [v], le)
            v = []
            for _ in range(k - 1):
                v = [v, v] if k <= 4 else [v]
            add("a" * k + "x", [v], le)
            v = (7,)
            for _ in range(k - 1):
                v = (v,)
            add("(" * k + "y" + ")" * k, [v], le)
            v = ("s", 3)
            for _ in range(k - 1):
                v = (1, v, 2)
            add("(y" * (k - 1) + "(sx)" + "y)" * (k - 1), [v], le)
        for k in (1, 4, 8, 16):
            # a(a(...)s) alternating, two elements on the outer six levels (bodies stay below 64 KiB)
            sig, v = "y", 5
            for lvl in range(k):
                sig, v = "a(" + sig + "s)", ([(v, "z"), (v, "")] if k - lvl <= 6 else [(v, "q")])
            add(sig, [v], le)
    # random arrays: element type x count x offset
    for _ in range(60 if tier == "quick" else 1500):
        et = rnd.choice(elem_types)
        n = rnd.randrange(0, 40)
        off = rnd.randrange(0, 9)
        add("y" * off + "a" + et + "s", [3] * off + [[sample_value(et, rnd.randrange(0, 50)) for _ in range(n)], "end"], rnd.random() < 0.5)
    return [m for m in out if m is not None]


def leg(ctx, rep, rnd, tier):
    info = ctx["info"]
    reader = info.get("model_reader") or ctx.get("reader_model") or vlib.build_ml("reader")
    nrand = 1500 if tier == "quick" else 20000
    msgs = []
    for i in range(nrand):
        m = wiregen.rand_message(rnd, max_depth=3 if rnd.random() < 0.7 else 6)
        msgs.append(("rand", wiregen.encode(m)))
    for m in directed(rnd, tier):
        try:
            msgs.append(("directed", m.encode()))
        except Exception as e:                                   # a generator bug must not pass silently
            rep.violation("c01_reader generator failed: %r" % (e,), {"names": "tools/props/c01_reader.py directed()"}, found_input=False)
    seen = set(); uniq = []
    for k, b in msgs:
        if b not in seen:
            seen.add(b); uniq.append((k, b))
    msgs = uniq
    hexes = [vlib.hexs(b) for _, b in msgs]
    impl, icr = vlib.run_lines(info["wire_h"], ["load d " + h for h in hexes])
    for line, err in icr:
        rep.violation("implementation crashed while reading a message through the iterator API: %s: %s" % (line[:300], err[-700:]),
                      {"input": line, "stderr": err})
    rlines, keep = [], []
    not_accepted = 0
    for (kind, b), h, d in zip(msgs, hexes, impl):
        if d == "!CRASH" or "msgs=" not in d:
            continue
        first = d.split("msgs=", 1)[1].split("|")[0]
        if first == "-" or " body=[" not in first:
            not_accepted += 1
            continue                                             # not accepted: nothing is read
        sig_hex = first.split(" sig=", 1)[1].split(" ", 1)[0]
        sig_hex = "-" if sig_hex in ("~", "-") else sig_hex
        hl = wiregen.header_len(b)
        le = b[0] == ord("l")
        blen = struct.unpack_from("<I" if le else ">I", b, 4)[0]
        body = b[hl:hl + blen]
        rlines.append("read %s %s %s" % ("le" if le else "be", sig_hex, vlib.hexs(body)))
        keep.append((kind, h, "[" + first.split(" body=[", 1)[1]))
    model, mcr = vlib.run_lines(reader, rlines)
    for line, err in mcr:
        rep.violation("reader model driver crashed on %s: %s" % (line[:300], err[-400:]), {"input": line, "names": "ml/reader driver"}, found_input=False)
    diffs = [(k, h, i, m, l) for (k, h, i), m, l in zip(keep, model, rlines) if i != m]
    spec = {}
    if diffs:
        sres, _ = vlib.run_lines(info["model"], ["spec1 " + h for _, h, _, _, _ in diffs])
        for (k, h, i, m, l), s in zip(diffs, sres):
            sd = ("[" + s.split(" body=[", 1)[1]) if " body=[" in s else None
            if m.startswith("?") or m == "!CRASH":
                rep.violation("reader model driver failed on `%s`: %s" % (l[:300], m), {"input": l, "names": "ml/reader driver"}, found_input=False)
            elif sd is not None and sd == i:
                rep.violation("reader model differs from the iterator API (which agrees with the specification decoder) on %s:\n impl  %s\n model %s" % (h[:200], i[:300], m[:300]),
                              {"cmd": "load d", "input": h, "impl": i, "model": m, "reader_cmd": l,
                               "names": "correspondence dbus_message_iter_* vs Wire.Reader.read_all"}, found_input=False)
            else:
                rep.violation("values read through the iterator API differ from the encoded values for %s:\n impl  %s\n model %s\n spec  %s" % (h[:200], i[:300], m[:300], (sd or s)[:300]),
                              {"cmd": "load d", "input": h, "impl": i, "model": m, "spec": s, "reader_cmd": l})
    # get_element_count / get_fixed_array of the model against the generator's own expectation (the harness does not call
    # these two API functions, so this sub-check ties the MODEL to an independent expectation, not to the implementation)
    aux, exp = [], []
    for le in (True, False):
        e = "<" if le else ">"
        for c, sz in FIXED.items():
            for n in (0, 1, 2, 7):
                raw = b"".join((i * 37 + 1).to_bytes(sz, "little" if le else "big") for i in range(n))
                pad = b"\0" * (4 if sz == 8 else 0)
                body = struct.pack(e + "I", len(raw)) + pad + raw
                o = "le" if le else "be"
                aux.append("count %s %s %s" % (o, vlib.hexs(("a" + c).encode()), vlib.hexs(body))); exp.append(str(n))
                aux.append("fixed %s %s %s" % (o, vlib.hexs(("a" + c).encode()), vlib.hexs(body))); exp.append("%d %s" % (n, vlib.hexs(raw)))
        for n in (0, 1, 3):
            raw = b"".join(struct.pack(e + "I", 1) + b"x\0" + b"\0" * 2 for _ in range(n))[:-2]       # no padding after the last element
            aux.append("count %s %s %s" % ("le" if le else "be", vlib.hexs(b"as"), vlib.hexs(struct.pack(e + "I", len(raw)) + raw))); exp.append(str(n))
    ares, _ = vlib.run_lines(reader, aux)
    # ... and against the implementation: the same arrays as the first argument of a little-endian message (the host order, so that
    # get_fixed_array's pointer into the message shows the bytes as marshalled), through the `arr1` harness command
    from rawbus import Msg
    ilines, iexp = [], []
    for l, x in zip(aux, exp):
        cmd, o, sg, body = l.split(" ")
        if o != "le" or bytes.fromhex(sg) in (b"ah", b"ab"):      # get_fixed_array is not defined for unix fds; the generated element values are not booleans
            continue
        base = Msg(4, 0, 1, {1: "/a", 2: "a.b", 3: "S", 8: bytes.fromhex(sg).decode()}, "", ())
        hb = bytearray(base.encode())
        raw = bytes.fromhex(body)
        struct.pack_into("<I", hb, 4, len(raw))
        ilines.append("arr1 " + vlib.hexs(bytes(hb) + raw)); iexp.append((cmd, x, l))
    ires, icr3 = vlib.run_lines(info["wire_h"], ilines)
    for line, err in icr3:
        rep.violation("implementation crashed in get_element_count / get_fixed_array: %s: %s" % (line[:300], err[-600:]), {"input": line, "stderr": err})
    n_arr = 0
    for (cmd, x, l), il, r in zip(iexp, ilines, ires):
        if r in ("!CRASH",) or not r.startswith("count="):
            if r != "!CRASH":
                rep.violation("arr1 harness gave `%s` for %s" % (r[:80], il[:200]), {"input": il, "names": "harness arr1 / generator"}, found_input=False)
            continue
        n_arr += 1
        cnt = r.split(" ")[0][6:]
        fx = r.split("fixed=", 1)[1]
        if cmd == "count" and cnt != x:
            rep.violation("dbus_message_iter_get_element_count returns %s, the array has %s elements (proved reader model agrees with the latter): %s" % (cnt, x, il[:200]), {"input": il, "impl": r, "model": x})
        if cmd == "fixed":
            xn, _, xh = x.partition(" ")
            want = "%s %s" % (xn, xh or "-")
            if fx != want:
                rep.violation("dbus_message_iter_get_fixed_array returns `%s`, the encoded elements are `%s`: %s" % (fx[:120], want[:120], il[:200]), {"input": il, "impl": r, "model": x})
    for l, x, a in zip(aux, exp, ares):
        if x != a:
            rep.violation("reader model: `%s` gives %s, expected %s" % (l, a, x), {"input": l, "names": "Wire.Reader.element_count / read_fixed_multi"}, found_input=False)
    kinds = {}
    shapes = set()
    for k, h, i in keep:
        kinds[k] = kinds.get(k, 0) + 1
        shapes.add(i)
    return {"reader_messages_compared": len(keep), "reader_distinct_dumps": len(shapes), "reader_kinds": kinds,
            "reader_disagreements": len(diffs), "reader_generated_not_accepted": not_accepted, "reader_count_fixed_cases": len(aux), "reader_count_fixed_cases_vs_impl": n_arr,
            "reader_samples": [{"cmd": l[:200], "dump": i[:160]} for (k, h, i), l in list(zip(keep, rlines))[::max(1, len(keep) // 6)]][:6],
            "reader_rule": "wiregen.rand_message bodies (all types, both byte orders) + directed shapes: empty/short arrays of every element "
                           "alignment at offsets 0..8, arrays of every fixed-size type (long, nested with empties, as dict values, in structs), "
                           "strings of length 0..17 next to every alignment, variants of every contained alignment at offsets 0..7, "
                           "variant nesting 1..63, dict entries with every key type, array/struct nesting to 32"}
