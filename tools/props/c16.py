"""C16 — name, path, signature and UTF-8 validators accept exactly the specified grammars."""
import os, sys
import itertools, random
import vlib

HARNESSES = ("wire_h",)
THEOREMS = ["C16_interface", "C16_error_name", "C16_member", "C16_path", "C16_bus_name_wellknown",
            "C16_bus_name_unique_partial", "C16_bus_name_unique_exact", "C16_bus_name_refuted", "C16_bus_namespace",
            "C16_utf8", "C16_signature", "C16_signature_accepts_only_grammar", "C16_signature_accepts_all_spec", "C16_signature_print_parse", "C16_signature_refuted"]
GRAMMARS = ["iface", "errname", "member", "path", "busname"]

NAME_ALPHA = [0x61, 0x5a, 0x30, 0x5f, 0x2d, 0x2e, 0x2f, 0x3a, 0x00, 0xe9]
SIG_ALPHA = [ord(c) for c in "ybnqiuxtdsoghva(){}"] + [ord("r"), ord("e"), ord("z"), 0]


def gen_names(tier, rnd):
    maxlen = 5 if tier == "quick" else 6
    cases = []
    for g in GRAMMARS:
        for n in range(0, maxlen + 1):
            for t in itertools.product(NAME_ALPHA, repeat=n):
                cases.append((g, bytes(t)))
        # every byte value in the syntactically interesting positions
        for b in range(256):
            for tmpl in (b"%c", b"a%c", b"%ca", b"a.%c", b"a.%cb", b"a.b%c", b"/%c", b"/a/%c", b"/%c/a", b":%c", b":1.%c", b":%c.1", b"%c.a", b"a%c.b"):
                cases.append((g, tmpl.replace(b"%c", bytes([b]))))
        for b1 in range(256):
            for b2 in (0x2e, 0x2f, 0x3a, 0x61, 0x39, 0x5f, 0x2d, 0x00, 0xff):
                cases.append((g, bytes([b1, b2])))
                cases.append((g, bytes([b2, b1])))
        # around the 255-byte limit
        for total in (253, 254, 255, 256, 257, 300):
            cases.append((g, (b"a." + b"b" * (total - 2))))
            cases.append((g, (b"/" + b"b" * (total - 1))))
            cases.append((g, (b":1." + b"2" * (total - 3))))
            cases.append((g, b"b" * total))
            cases.append((g, (b"a" * (total - 2) + b".b")))
        for _ in range(3000 if tier == "quick" else 100000):
            n = rnd.choice((1, 2, 3, 8, 20, 60, 254, 255, 256))
            pool = rnd.choice((b"abZ09_-./:", b"ab._", b"a/_9", b":12.-a"))
            cases.append((g, bytes(rnd.choice(pool) for _ in range(n))))
    return cases


UTF8_LEADS = [0x00, 0x01, 0x7f, 0x80, 0xbf, 0xc0, 0xc1, 0xc2, 0xdf, 0xe0, 0xe1, 0xec, 0xed, 0xee, 0xef, 0xf0, 0xf1, 0xf3, 0xf4,
              0xf5, 0xf7, 0xf8, 0xfb, 0xfc, 0xfd, 0xfe, 0xff]
UTF8_CONTS = [0x00, 0x7f, 0x80, 0x8f, 0x90, 0x9f, 0xa0, 0xbf, 0xc0, 0xff]


def gen_utf8(tier, rnd):
    cases = []
    for lead in UTF8_LEADS:
        for n in range(0, 4):
            for t in itertools.product(UTF8_CONTS, repeat=n):
                s = bytes([lead]) + bytes(t)
                cases.append(("utf8", s))
                if n <= 2:
                    cases.append(("utf8", b"a" + s + b"b"))
    for lead in (0xf8, 0xfb, 0xfc, 0xfd):
        for n in (4, 5):
            for t in itertools.product((0x80, 0xbf, 0x00), repeat=n):
                cases.append(("utf8", bytes([lead]) + bytes(t)))
    # all two-byte strings (every lead with every second byte)
    for a in range(256):
        for b in range(256):
            cases.append(("utf8", bytes([a, b])))
    # every scalar-value boundary, encoded properly and with off-by-one neighbours
    def enc(cp, n):
        if n == 1: return bytes([cp & 0x7f])
        if n == 2: return bytes([0xc0 | (cp >> 6) & 0x1f, 0x80 | cp & 0x3f])
        if n == 3: return bytes([0xe0 | (cp >> 12) & 0xf, 0x80 | (cp >> 6) & 0x3f, 0x80 | cp & 0x3f])
        if n == 4: return bytes([0xf0 | (cp >> 18) & 7, 0x80 | (cp >> 12) & 0x3f, 0x80 | (cp >> 6) & 0x3f, 0x80 | cp & 0x3f])
        if n == 5: return bytes([0xf8 | (cp >> 24) & 3, 0x80 | (cp >> 18) & 0x3f, 0x80 | (cp >> 12) & 0x3f, 0x80 | (cp >> 6) & 0x3f, 0x80 | cp & 0x3f])
        return bytes([0xfc | (cp >> 30) & 1, 0x80 | (cp >> 24) & 0x3f, 0x80 | (cp >> 18) & 0x3f, 0x80 | (cp >> 12) & 0x3f, 0x80 | (cp >> 6) & 0x3f, 0x80 | cp & 0x3f])
    for cp in (0, 1, 0x7f, 0x80, 0x7ff, 0x800, 0xd7ff, 0xd800, 0xdbff, 0xdc00, 0xdfff, 0xe000, 0xfffd, 0xfffe, 0xffff, 0x10000,
               0x10ffff, 0x110000, 0x1fffff, 0x200000, 0x3ffffff, 0x4000000, 0x7fffffff):
        for n in range(1, 7):
            if cp < (1 << (7 if n == 1 else 5 * n + 1 if n > 1 else 7)) or True:
                try:
                    cases.append(("utf8", enc(cp, n)))
                    cases.append(("utf8", b"x" + enc(cp, n) + b"y"))
                    cases.append(("utf8", enc(cp, n)[:-1]))
                except ValueError:
                    pass
    # position matrix: one bad byte (or one good multi-byte character) at every position of strings of every length up to
    # several machine words, behind ASCII and non-ASCII prefixes (aimed at block-at-a-time fast paths)
    maxlen = 40 if tier == "quick" else 96
    for L in range(1, maxlen + 1):
        for prefix in (b"", "\u00e9".encode()):
            base = prefix + b"a" * L
            for pos in range(len(prefix), len(base)):
                for bad in (0x00, 0x80, 0xff):
                    cases.append(("utf8", base[:pos] + bytes([bad]) + base[pos + 1:]))
                if L <= 24 or pos % 5 == 0:
                    cases.append(("utf8", base[:pos] + "\u20ac".encode() + base[pos:]))
                    cases.append(("utf8", base[:pos] + b"\xe2\x82" + base[pos:]))
    for _ in range(3000 if tier == "quick" else 200000):
        n = rnd.randint(1, 12)
        cases.append(("utf8", bytes(rnd.choice(UTF8_LEADS + UTF8_CONTS + [0x41]) for _ in range(n))))
    return cases


def gen_sigs(tier, rnd):
    cases = []
    maxlen = 4 if tier == "quick" else 5
    for n in range(0, maxlen + 1):
        for t in itertools.product(SIG_ALPHA, repeat=n):
            cases.append(("sig", bytes(t)))
    for b in range(256):
        cases.append(("sig", bytes([b])))
        cases.append(("sig", b"a" + bytes([b])))
        cases.append(("sig", b"(" + bytes([b]) + b")"))
        cases.append(("sig", b"a{" + bytes([b]) + b"i}"))
        cases.append(("sig", b"a{s" + bytes([b]) + b"}"))
    for k in (1, 2, 30, 31, 32, 33, 34, 40):
        cases.append(("sig", b"a" * k + b"i"))
        cases.append(("sig", b"(" * k + b"i" + b")" * k))
        cases.append(("sig", b"a(" * k + b"i" + b")" * k))
        cases.append(("sig", b"a(" * k + b"ai" + b")" * k))
        cases.append(("sig", b"(a" * k + b"i" + b")" * k))
        cases.append(("sig", b"a{s" * k + b"i" + b"}" * k))
        cases.append(("sig", b"a{s" * k + b"ai" + b"}" * k))
        cases.append(("sig", b"a" * k + b"(i)"))
        cases.append(("sig", b"a" * k + b"{si}"))
        cases.append(("sig", b"(" * k + b"a" * k + b"i" + b")" * k))
    for total in (253, 254, 255, 256, 257):
        cases.append(("sig", b"i" * total))
        cases.append(("sig", b"(" + b"i" * (total - 2) + b")"))
        cases.append(("sig", b"ai" * (total // 2) + b"i" * (total % 2)))
    # random well-formed and near-well-formed signatures
    def rand_sct(d):
        r = rnd.random()
        if d <= 0 or r < 0.45: return bytes([rnd.choice(b"ybnqiuxtdsoghv")])
        if r < 0.65: return b"a" + rand_sct(d - 1)
        if r < 0.8: return b"a{" + bytes([rnd.choice(b"ybnqiuxtdsogh")]) + rand_sct(d - 1) + b"}"
        return b"(" + b"".join(rand_sct(d - 1) for _ in range(rnd.randint(1, 3))) + b")"
    for _ in range(4000 if tier == "quick" else 300000):
        s = b"".join(rand_sct(rnd.randint(0, 5)) for _ in range(rnd.randint(0, 3)))
        cases.append(("sig", s))
        if s:
            i = rnd.randrange(len(s))
            m = rnd.choice(("del", "ins", "rep"))
            c = bytes([rnd.choice(SIG_ALPHA)])
            cases.append(("sig", s[:i] + (b"" if m == "del" else c) + (s[i:] if m == "ins" else s[i + 1:])))
    return cases


def known_match(known, fid):
    for k in known:
        if k["id"] == fid:
            return k
    return None


def run(ctx):
    rep, tier, info = ctx["rep"], ctx["tier"], ctx["info"]
    rnd = random.Random(ctx["seed"])
    known = vlib.load_known("C16")
    cases = gen_names(tier, rnd) + gen_utf8(tier, rnd) + gen_sigs(tier, rnd)
    if ctx.get("replay"):
        import json
        rp = json.load(open(ctx["replay"]))["replay"]
        h = rp.get("input", "-")
        cases = [(rp.get("cmd", "sig"), bytes.fromhex("" if h == "-" else h))]
    # dedupe, keep order
    seen = set(); uniq = []
    for c in cases:
        if c not in seen:
            seen.add(c); uniq.append(c)
    cases = uniq
    lines = ["%s %s" % (g, vlib.hexs(b)) for g, b in cases]
    model, mcr = vlib.run_lines(info["model"], lines)
    impl, icr = vlib.run_lines(info["wire_h"], lines)
    for line, err in icr:
        rep.violation("implementation crashed / sanitizer report on input `%s`: %s" % (line, err[-600:]), {"input": line, "stderr": err})
    for line, err in mcr:
        rep.violation("extracted model failed on `%s`: %s" % (line, err[-300:]), {"input": line, "names": "model driver"}, found_input=False)
    dist = {}
    nontrivial = set()
    entry_disagree = 0
    for (g, b), m, i in zip(cases, model, impl):
        if i == "!CRASH" or m.startswith("?") or m == "!CRASH":
            continue
        mf, im = m.split(), i.split()
        dist[g] = dist.get(g, 0) + 1
        if g == "sig":
            mod_v, spec_v, spec_single, parses, an, sn = int(mf[0]), mf[1] == "1", mf[2] == "1", mf[3] == "1", int(mf[4]), int(mf[5])
            imp_reason = int(im[0]); imp_v = imp_reason == 0
            if imp_v or parses: nontrivial.add((g, b))
            # all entry points agree with each other
            if im[1] != "-" and (im[1] == "1") != imp_v:
                rep.violation("dbus_signature_validate disagrees with internal validator on %s" % vlib.hexs(b), {"cmd": "sig", "input": vlib.hexs(b), "impl": i})
            if im[2] != "-" and imp_v and (im[2] == "1") != spec_single and spec_v:
                rep.violation("dbus_signature_validate_single verdict %s differs from spec single-complete-type %s on %s" % (im[2], spec_single, vlib.hexs(b)), {"cmd": "sig", "input": vlib.hexs(b), "impl": i, "model": m})
            if imp_reason != mod_v:
                # correspondence broken; does the implementation now violate the grammar here?
                if imp_v != spec_v and not (imp_v and parses and an > 32 and sn <= 32 and len(b) <= 255):
                    rep.violation("signature %r: implementation says %s (reason %d), specification says %s" % (b, imp_v, imp_reason, spec_v),
                                  {"cmd": "sig", "input": vlib.hexs(b), "impl": i, "model": m})
                elif (imp_v != (mod_v == 0)):
                    rep.violation("signature %r: implementation verdict %d differs from model %d (spec oracle agrees with implementation)" % (b, imp_reason, mod_v),
                                  {"cmd": "sig", "input": vlib.hexs(b), "impl": i, "model": m, "names": "correspondence wire_h/sig vs Wire.Sig.validate_signature_reason"}, found_input=False)
                else:
                    rep.violation("signature %r: reason code %d differs from model %d (both reject)" % (b, imp_reason, mod_v),
                                  {"cmd": "sig", "input": vlib.hexs(b), "impl": i, "model": m, "names": "correspondence (reason code) wire_h/sig vs Wire.Sig"}, found_input=False)
            elif imp_v != spec_v:
                # model == impl but both differ from the spec: the refuted class (F11) or a new violation
                k = known_match(known, "F11")
                if k and imp_v and parses and an > 32 and sn <= 32 and len(b) <= 255:
                    rep.known(k, vlib.hexs(b))
                else:
                    rep.violation("signature %r accepted=%s by code and model but specification says %s" % (b, imp_v, spec_v),
                                  {"cmd": "sig", "input": vlib.hexs(b), "impl": i, "model": m})
            continue
        if g == "utf8":
            mod_v, spec_v = mf[0], mf[1]
            imp_v = im[0]
            if imp_v == "1": nontrivial.add((g, b))
            if im[1] != "-" and im[1] != imp_v:
                rep.violation("dbus_validate_utf8 disagrees with internal validator on %s" % vlib.hexs(b), {"cmd": "utf8", "input": vlib.hexs(b), "impl": i})
            if imp_v != spec_v:
                rep.violation("UTF-8 %s: implementation says %s, Unicode Table 3-7 says %s" % (vlib.hexs(b), imp_v, spec_v), {"cmd": "utf8", "input": vlib.hexs(b), "impl": i, "model": m})
            elif imp_v != mod_v:
                rep.violation("UTF-8 %s: model says %s, implementation %s" % (vlib.hexs(b), mod_v, imp_v),
                              {"cmd": "utf8", "input": vlib.hexs(b), "names": "correspondence wire_h/utf8 vs Wire.Utf8.validate_utf8"}, found_input=False)
            continue
        mod_v, spec_v = mf[0], mf[1]
        imp_v, imp_emb, imp_pub = im[0], im[1], im[2]
        if imp_v == "1": nontrivial.add((g, b))
        if imp_emb != imp_v or (imp_pub != "-" and imp_pub != imp_v):
            rep.violation("%s %s: entry points disagree (exact=%s embedded=%s public=%s)" % (g, vlib.hexs(b), imp_v, imp_emb, imp_pub), {"cmd": g, "input": vlib.hexs(b), "impl": i})
            continue
        if imp_v != mod_v:
            if imp_v != spec_v:
                rep.violation("%s %r: implementation says %s, grammar says %s" % (g, b, imp_v, spec_v), {"cmd": g, "input": vlib.hexs(b), "impl": i, "model": m})
            else:
                rep.violation("%s %r: implementation %s vs model %s (spec agrees with implementation)" % (g, b, imp_v, mod_v),
                              {"cmd": g, "input": vlib.hexs(b), "names": "correspondence wire_h/%s vs Wire.Names" % g}, found_input=False)
        elif imp_v != spec_v:
            k = known_match(known, "F2")
            if k and g == "busname" and b[:1] == b":" and imp_v == "1":
                rep.known(k, vlib.hexs(b))
            else:
                rep.violation("%s %r: code and model say %s, grammar says %s" % (g, b, imp_v, spec_v), {"cmd": g, "input": vlib.hexs(b), "impl": i, "model": m})
    # the same grammar as seen by MESSAGE PARSING: a variant whose embedded signature is not one single complete type must make the
    # message invalid whatever data follows (the validator reaches signatures through validate_body_helper, not only through the
    # public dbus_signature_validate* entry points)
    import struct as _st
    sys.path.insert(0, os.path.join(vlib.VERIF, "harness", "py"))
    from rawbus import Msg
    FIXSZ = {"y": 1, "b": 4, "n": 2, "q": 2, "i": 4, "u": 4, "x": 8, "t": 8, "d": 8, "h": 4}
    vlines, vsrc = [], []
    seen_v = set()
    for (g, b), m in zip(cases, model):
        if g != "sig" or not b or len(b) > 255 or b in seen_v or m.startswith("?"):
            continue
        mf = m.split(" ")
        if mf[2] == "1":        # a single complete type: acceptance depends on the data, not judged here
            continue
        seen_v.add(b)
        if len(seen_v) > (2500 if tier == "quick" else 60000):
            break
        head = bytes([len(b)]) + b + b"\0"
        datas = [b"", b"\0" * 8]
        c0 = chr(b[0])
        if c0 in FIXSZ:
            al = FIXSZ[c0]
            datas.append(b"\0" * ((-len(head)) % al) + b"\0" * al)            # exactly the first value
        elif c0 in "sog":
            datas.append(b"\0" * ((-len(head)) % 4) + (b"\x01\0\0\0/\0" if c0 == "o" else b"\0\0\0\0\0") if c0 != "g" else b"\0\0")
        elif c0 == "a":
            datas.append(b"\0" * ((-len(head)) % 4) + b"\0" * 4)
        for dta in datas:
            base = Msg(4, 0, 1, {1: "/a", 2: "a.b", 3: "S", 8: "v"}, "", ())
            hb = bytearray(base.encode())
            raw = head + dta
            _st.pack_into("<I", hb, 4, len(raw))
            vlines.append("demarshal " + vlib.hexs(bytes(hb) + raw)); vsrc.append(b)
    vres, vcr = vlib.run_lines(info["wire_h"], vlines)
    for line, err in vcr:
        rep.violation("implementation crashed while parsing a message with a malformed variant signature: %s: %s" % (line[:300], err[-600:]), {"input": line, "stderr": err})
    n_variant_route = 0
    for l, b, r in zip(vlines, vsrc, vres):
        if r == "!CRASH":
            continue
        n_variant_route += 1
        if " msg " in r:
            rep.violation("message parsing accepts a variant whose signature %r is not a single complete type (dbus_signature_validate_single and the grammar reject it)" % b,
                          {"cmd": "demarshal", "input": l.split(" ", 1)[1], "signature": vlib.hexs(b), "impl": r})
    rep.coverage.update({
        "variant_route_cases": n_variant_route,
        "evaluations": len(cases), "distinct_nontrivial": len(nontrivial),
        "rule": "exhaustive strings up to length %d over a 10-symbol class alphabet per name grammar; every byte value in 14 positional templates; "
                "all 2-byte strings and lead x continuation-class combinations (<=4 bytes) for UTF-8 plus scalar boundaries in 1..6-byte forms; "
                "all signatures up to length %d over a 23-symbol alphabet, nesting 30..34 in 10 shapes, lengths 253..257, random (mutated) signatures; "
                "non-trivial = accepted by the implementation (or parses, for signatures); distinct = distinct (grammar, bytes)" % (5 if tier == "quick" else 6, 4 if tier == "quick" else 5),
        "samples": [{"grammar": g, "hex": vlib.hexs(b), "model": m, "impl": i} for (g, b), m, i in list(zip(cases, model, impl))[::max(1, len(cases) // 12)]][:12],
        "input_distribution": dist, "traces_validated_against_impl": len(cases), "disagreements_checked": len(rep.violations),
        "exhaustive": False,
        "explanation": "theorems: model = grammar for every byte string (names, paths); correspondence: implementation = model on the enumerated cases; "
                       "spec oracle evaluated on every case as well",
    })
    rep.assumptions = ["models in coq/Wire/{Names,Sig,Utf8}.v are hand-written; character classes, limits, type tables and reason codes are regenerated from /repo on every run",
                       "bus-side entry points (AddMatch, RequestName) are exercised by the C04/C07 checks, not here"]
