"""C14 — out-of-memory at any point leaves state unchanged and leaks nothing.

Implementation side: harness/c/oom_h.c (in-process BusContext over debug-pipe,
the allocation-failure injector of dbus/dbus-memory.c, every failing index k on
a fresh bus + history; library leg: message build/copy/edit, match-rule parse,
config load).  Model side: ml/oom (extracted Oom.Handlers.step_f).

Correspondence: the *ordered sequence of distinct outcomes* over the failing
index must agree (the real code has many allocations per model allocation
point, so consecutive equal outcomes are merged; outcomes in which the injected
failure was absorbed - the transport / DBusConnection machinery retried - and
the request went through normally are dropped on the implementation side).
Spec oracle (model independent): every outcome is either the unfailed result,
or {state snapshot unchanged, requester gets exactly one NoMemory error, nobody
else gets anything, retry gives the unfailed result, nothing leaked}."""
import json, os, random, re, sys
import vlib

HARNESSES = (("oom_h", ["libdbus-daemon-internal.a"]),)
MLS = ("oom",)
LEVEL = "proof"
THEOREMS = []
_props = os.path.join(vlib.COQ, "Props", "C14.v")
if os.path.exists(_props):
    THEOREMS = re.findall(r"^Theorem\s+(C14_[A-Za-z0-9_]+)", open(_props).read(), re.M)

NOMEM = "E<bus>org.freedesktop.DBus.Error.NoMemory@req()"
NOC_RULE = "type='signal',interface='org.freedesktop.DBus',member='NameOwnerChanged'"
NAMES = [b"com.example.A", b"com.example.B", b"org.v.C"]
BAD_NAMES = [b":2.7", b"org.freedesktop.DBus", b"nodot", b"a..b", b"x." + b"y" * 254]


def hx(b):
    if isinstance(b, str):
        b = b.encode()
    return b.hex() if b else "-"


def rule_text(r):
    return NOC_RULE if r == 0 else "type='signal',interface='v.P',member='M%d'" % (r - 1)


# ---- cases ------------------------------------------------------------------------
# an op is a tuple: ("C",) ("H",i) ("R",i,name,flags) ("L",i,name) ("A",i,r) ("D",i,r)
#                   ("M",i,dest,tag) dest = int j (unique name of j) | bytes   ("Y",i,j,tag) ("E",i,j,tag) ("S",i,m)
def op_impl(o):
    k = o[0]
    if k == "C":
        return "C"
    if k == "H":
        return "H%d" % o[1]
    if k == "R":
        return "R%d,%s,%d" % (o[1], hx(o[2]), o[3])
    if k == "L":
        return "L%d,%s" % (o[1], hx(o[2]))
    if k in "AD":
        return "%s%d,%s" % (k, o[1], hx(rule_text(o[2])))
    if k == "M":
        return "M%d,%s,%d" % (o[1], (":%d" % o[2]) if isinstance(o[2], int) else hx(o[2]), o[3])
    if k in "YE":
        return "%s%d,:%d,%d" % (k, o[1], o[2], o[3])
    if k == "S":
        return "S%d,%s" % (o[1], hx("M%d" % o[2]))
    raise ValueError(o)


def op_model(o):
    k = o[0]
    if k in "AD":
        return "%s%d,%d" % (k, o[1], o[2])
    if k == "S":
        return "S%d,%d" % (o[1], o[2])
    return op_impl(o)


def case_lines(case, mode="fresh"):
    lim = ",".join(str(x) for x in case["limits"])
    pi = ",".join(hx("M%d" % m) for m in case["probes"]) or "-"
    pm = ",".join(str(m) for m in case["probes"]) or "-"
    hi = " ".join(op_impl(o) for o in case["hist"])
    hm = " ".join(op_model(o) for o in case["hist"])
    return ("bus %s %s %s %s -- %s" % (mode, lim, pi, hi, op_impl(case["test"])),
            "bus %s %s %s %s -- %s" % (mode.split(":")[0], lim, pm, hm, op_model(case["test"])))


def base_hist(n, noc=(), rules=()):
    """n registered clients (c0 is the control connection that emits the probe signals)"""
    h = []
    for i in range(n):
        h += [("C",), ("H", i)]
    for i in noc:
        h.append(("A", i, 0))
    for i, r in rules:
        h.append(("A", i, r))
    return h


def targeted_cases():
    out = []
    A = NAMES[0]
    D = dict(limits=(512, 512, 128), probes=[0])
    # RequestName: prior queue state x request flags (every branch of bus_registry_acquire_service)
    priors = {
        "absent": [],
        "other": [("R", 1, A, 0)], "other_allow": [("R", 1, A, 1)], "other_allow_dnq": [("R", 1, A, 5)], "other_dnq": [("R", 1, A, 4)],
        "self": [("R", 2, A, 0)], "self_allow": [("R", 2, A, 1)],
        "self_queued": [("R", 1, A, 0), ("R", 2, A, 0)], "self_queued_allow_owner": [("R", 1, A, 1), ("R", 2, A, 0)],
        "self_queued_behind": [("R", 1, A, 0), ("R", 3, A, 0), ("R", 2, A, 0)],
        "other_with_waiter": [("R", 1, A, 1), ("R", 3, A, 0)], "other_dnq_with_waiter": [("R", 1, A, 5), ("R", 3, A, 0)],
    }
    for pname, ph in priors.items():
        for fl in range(8):
            out.append(dict(D, hist=base_hist(4, noc=(0, 3)) + ph, test=("R", 2, A, fl), tag="req/%s/%d" % (pname, fl)))
        out.append(dict(D, hist=base_hist(4, noc=(0,)) + ph, test=("L", 2, A), tag="rel/%s" % pname))
        out.append(dict(D, hist=base_hist(4, noc=(0,)) + ph, test=("L", 1, A), tag="rel1/%s" % pname))
    for bn in BAD_NAMES:
        out.append(dict(D, hist=base_hist(2), test=("R", 1, bn, 0), tag="req/bad"))
        out.append(dict(D, hist=base_hist(2), test=("L", 1, bn), tag="rel/bad"))
    # names limit
    for lim in (1, 2, 3):
        out.append(dict(limits=(lim, 512, 128), probes=[], hist=base_hist(2) + [("R", 1, NAMES[1], 0)], test=("R", 1, A, 0), tag="req/limit%d" % lim))
    # Hello: nobody listening / subscribers / a second Hello / request before Hello
    for noc in ((), (0,), (0, 1)):
        out.append(dict(D, hist=base_hist(2, noc=noc) + [("C",)], test=("H", 2), tag="hello/%d" % len(noc)))
    out.append(dict(D, hist=base_hist(2), test=("H", 1), tag="hello/again"))
    # max_connections_per_user: one below the limit (a slot leaked by a failed Hello would show: former F14.4), at the limit, above
    for mc in (2, 3, 4):
        out.append(dict(limits=(512, 512, 128, mc), probes=[], hist=base_hist(2) + [("C",)], test=("H", 2), tag="hello/maxconns%d" % mc))
    out.append(dict(D, hist=base_hist(2) + [("C",)], test=("R", 2, A, 0), tag="req/unregistered"))
    out.append(dict(D, hist=base_hist(2) + [("C",)], test=("A", 2, 1), tag="add/unregistered"))
    # AddMatch / RemoveMatch
    for rules in ((), ((1, 1),), ((1, 1), (1, 1)), ((1, 2), (1, 1), (2, 1))):
        for r in (0, 1, 2):
            out.append(dict(limits=(512, 512, 128), probes=[0, 1], hist=base_hist(3, rules=rules), test=("A", 1, r), tag="add"))
            out.append(dict(limits=(512, 512, 128), probes=[0, 1], hist=base_hist(3, rules=rules), test=("D", 1, r), tag="remove"))
    for lim in (1, 2):
        out.append(dict(limits=(512, lim, 128), probes=[0], hist=base_hist(2, rules=((1, 1),)), test=("A", 1, 1), tag="add/limit%d" % lim))
    # routed messages
    R = dict(limits=(512, 512, 128), probes=[])
    out.append(dict(R, hist=base_hist(3), test=("M", 1, 2, 7), tag="call"))
    out.append(dict(R, hist=base_hist(3) + [("R", 2, A, 0)], test=("M", 1, A, 7), tag="call/name"))
    out.append(dict(R, hist=base_hist(3), test=("M", 1, A, 7), tag="call/noowner"))
    out.append(dict(R, hist=base_hist(3) + [("M", 1, 2, 5)], test=("M", 1, 2, 7), tag="call/second"))
    for lim in (1, 2):
        out.append(dict(limits=(512, 512, lim), probes=[], hist=base_hist(3) + [("M", 1, 2, 5)], test=("M", 1, 0, 7), tag="call/limit%d" % lim))
    for k in "YE":
        out.append(dict(R, hist=base_hist(3) + [("M", 1, 2, 7)], test=(k, 2, 1, 7), tag="reply"))
        out.append(dict(R, hist=base_hist(3) + [("M", 1, 2, 7), ("M", 1, 2, 8), ("M", 0, 2, 9)], test=(k, 2, 1, 7), tag="reply/notfirst"))
        out.append(dict(R, hist=base_hist(3) + [("M", 1, 2, 7)], test=(k, 0, 1, 7), tag="reply/wrong-sender"))
        out.append(dict(R, hist=base_hist(3), test=(k, 2, 1, 7), tag="reply/unrequested"))
        out.append(dict(R, hist=base_hist(3) + [("M", 1, 2, 7), ("Y", 2, 1, 7)], test=(k, 2, 1, 7), tag="reply/twice"))
    for rules in ((), ((1, 1),), ((1, 1), (2, 1)), ((0, 1), (1, 1), (1, 1), (2, 2))):
        out.append(dict(limits=(512, 512, 128), probes=[0], hist=base_hist(3, rules=rules), test=("S", 0, 0), tag="signal/%d" % len(rules)))
        out.append(dict(limits=(512, 512, 128), probes=[0], hist=base_hist(3, rules=rules), test=("S", 1, 0), tag="signal1/%d" % len(rules)))
    return out


def random_case(rnd, maxlen):
    n = rnd.randint(2, 5)
    limits = (rnd.choice((512, 512, 3, 2)), rnd.choice((512, 512, 2, 3)), rnd.choice((128, 128, 1, 2)), rnd.choice((256, 256, 256, n + 1, n + 2)))
    hist = base_hist(n, noc=[i for i in range(n) if rnd.random() < 0.4])
    names = NAMES[:rnd.randint(1, 3)]
    tags = iter(range(10, 10000))
    calls = []          # (caller, callee, tag) we think are outstanding
    unreg = None
    if rnd.random() < 0.15:
        hist.append(("C",))
        unreg = n

    def rand_op(for_test):
        r = rnd.random()
        i = rnd.randrange(1, n) if rnd.random() < 0.85 else 0
        if unreg is not None and for_test and r < 0.5:
            return ("H", unreg) if rnd.random() < 0.8 else ("R", unreg, names[0], 0)
        if r < 0.38:
            nm = rnd.choice(names) if rnd.random() < 0.93 else rnd.choice(BAD_NAMES)
            return ("R", i, nm, rnd.choice((0, 1, 2, 3, 4, 5, 6, 7, 0, 1, 2, 4)))
        if r < 0.52:
            return ("L", i, rnd.choice(names) if rnd.random() < 0.95 else rnd.choice(BAD_NAMES))
        if r < 0.62:
            return ("A", i, rnd.choice((0, 1, 1, 2, 3)))
        if r < 0.70:
            return ("D", i, rnd.choice((0, 1, 1, 2, 3)))
        if r < 0.80:
            j = rnd.choice([x for x in range(n) if x != i])
            d = j if rnd.random() < 0.7 else rnd.choice(names)
            t = next(tags)
            if isinstance(d, int):
                calls.append((i, d, t))
            return ("M", i, d, t)
        if r < 0.90:
            if calls and rnd.random() < 0.8:
                c = rnd.choice(calls)
                if not for_test:
                    calls.remove(c)
                return (rnd.choice("YYE"), c[1], c[0], c[2])
            j = rnd.choice([x for x in range(n) if x != i])
            return (rnd.choice("YE"), i, j, rnd.choice((1, 2)))
        return ("S", i, rnd.choice((0, 0, 1, 2)))

    for _ in range(rnd.randint(0, maxlen)):
        hist.append(rand_op(False))
    test = rand_op(True)
    if rnd.random() < 0.02:
        test = ("H", rnd.randrange(n))
    return dict(limits=limits, probes=[0, 1] if rnd.random() < 0.7 else [], hist=hist, test=test, tag="random")


# ---- results ----------------------------------------------------------------------------
def split_outcome(t):
    """'f1|A[..]|S[..]|R[..]|S2[..]|P[..]|leak=0' -> dict, or a crash/stop record"""
    m = re.match(r"^f(\d)\|(CRASH\[.*\]|STOP|DANGLING)(<giving-up>)?$", t)
    if m:
        body = m.group(2)
        kind = "DANGLING" if ("heap-use-after-free" in body or body == "DANGLING") else \
               "STOP" if ("assertion_failed" in body or "not_reached" in body or body == "STOP") else "CRASH"
        return {"f": int(m.group(1)), "special": kind, "raw": t}
    marks = ["|A[", "]|S[", "]|R[", "]|S2[", "]|P["]
    pos, idx = [], 0
    for mk in marks:
        j = t.find(mk, idx)
        if j < 0:
            return {"f": 1, "special": "UNPARSED", "raw": t}
        pos.append(j)
        idx = j + len(mk)
    tail = t[idx:]
    mm = re.match(r"^(.*)\](?:\|leak=(-?\d+))?$", tail, re.S)
    if not mm:
        return {"f": 1, "special": "UNPARSED", "raw": t}
    g = lambda a, b, mk: t[pos[a] + len(mk):pos[b]]
    return {"f": int(t[1]), "special": None, "A": g(0, 1, marks[0]), "S": g(1, 2, marks[1]), "R": g(2, 3, marks[2]), "S2": g(3, 4, marks[3]),
            "P": mm.group(1), "leak": int(mm.group(2)) if mm.group(2) is not None else 0, "raw": t}


def norm(o):
    if o["special"]:
        return "f1|" + o["special"] if o["special"] in ("DANGLING", "STOP") else o["raw"]
    return "f%d|A[%s]|S[%s]|R[%s]|S2[%s]|P[%s]" % (o["f"], o["A"], o["S"], o["R"], o["S2"], o["P"])


def parse_result(line):
    segs = line.split(" ## ")
    res = {"base": None, "outs": [], "end": "", "raw": line}
    for s in segs:
        if s.startswith("base="):
            res["base"] = s[5:]
        elif s.startswith("d=") and "base=" in s:
            res["base"] = s.split("base=", 1)[1]
        elif s.startswith("end"):
            res["end"] = s
        else:
            m = re.match(r"^(\d+)\*(.*)$", s, re.S)
            if m:
                res["outs"].append((int(m.group(1)), split_outcome(m.group(2))))
            elif re.match(r"^d=\d+$", s):
                res["outs"].append((0, {"special": "GAP", "f": 1, "raw": s}))
            elif s.startswith("f"):
                res["outs"].append((1, split_outcome(s)))        # the model's pair mode prints a bare set
    return res


def strip_idx(p):
    return re.sub(r"#\d+", "", p)


def requester_of(case):
    t = case["test"]
    return None if t[0] == "C" else t[1]


def judge(case, base, succ, o):
    """spec oracle on one implementation outcome: None = fine, else a reason string"""
    if o["special"] == "GAP":
        return None
    if o["special"]:
        return "the daemon died: " + o["raw"][:200]
    if o.get("leak", 0) != 0:
        return "memory blocks still outstanding after teardown: %d" % o["leak"]
    if o["A"] == succ["A"] and o["S"] == succ["S"] and strip_idx(o["P"]) == strip_idx(succ["P"]) and o["R"] == "":
        return None                                    # the request went through completely
    want_a = "c%d:%s" % (requester_of(case), NOMEM)
    if o["A"] != want_a:
        return "after an injected failure the clients received `%s` (expected either the complete result or only NoMemory to the requester)" % o["A"][:200]
    if o["S"] != base:
        return "NoMemory was reported but the observable state changed: `%s` (was `%s`)" % (o["S"][:200], base[:200])
    if o["R"] != succ["A"] or o["S2"] != succ["S"]:
        return "the retry with memory available gave `%s` / `%s`, the unfailed request gives `%s` / `%s`" % (o["R"][:150], o["S2"][:150], succ["A"][:150], succ["S"][:150])
    if strip_idx(o["P"]) != strip_idx(succ["P"]):
        return "pending replies after failed attempt + retry `%s` differ from the unfailed `%s`" % (o["P"], succ["P"])
    return None


def classify_known(case, base, succ, o, why):
    """map a property violation that model and implementation agree on to a known-finding id"""
    t = case["test"][0]
    if o["special"] in ("DANGLING", "STOP") and t in "RL":
        return "F14.1"
    if o["special"]:
        return None
    nomem = o["A"] == "c%d:%s" % (requester_of(case), NOMEM)
    if t == "H" and nomem and "Error.Failed" in o["R"]:
        return "F10c"
    if t == "H" and nomem and o["S"] == base and "Error.LimitsExceeded" in o["R"] and "Error.LimitsExceeded" not in succ["A"]:
        return "F14.4"
    if t in "RL" and nomem and o["S"] != base:
        # queue membership changed -> F10a ; only flags / position changed -> F10b
        qb = re.sub(r"(c\d+)[ad]*", r"\1", base)
        qs = re.sub(r"(c\d+)[ad]*", r"\1", o["S"])
        def members(s):
            return sorted(re.findall(r"c\d+", s.split("|N:")[0]))
        return "F10a" if members(qb) != members(qs) else "F10b"
    if t == "L" and nomem and o["S"] == base:
        return None
    return None


def load_known():
    """recorded findings: known-findings.json only (notes/C14.findings.json is documentation)"""
    return {e["id"]: e for e in vlib.load_known("C14")}


def impl_sequence(res, succ):
    """drop the outcomes in which the failure was absorbed and the request completed; merge consecutive duplicates"""
    seq = []
    outs = res["outs"]
    for idx, (n, o) in enumerate(outs):
        last = idx == len(outs) - 1
        if o["special"] == "GAP":
            continue
        if not last and not o["special"] and o["f"] == 1 and succ and o["A"] == succ["A"] and o["S"] == succ["S"] and o["R"] == "" and strip_idx(o["P"]) == strip_idx(succ["P"]):
            continue
        s = norm(o)
        if not seq or seq[-1] != s:
            seq.append(s)
    return seq


def model_sequence(res):
    seq = []
    for n, o in res["outs"]:
        s = norm(o)
        if not seq or seq[-1] != s:
            seq.append(s)
    return seq


def run(ctx):
    rep, tier, info = ctx["rep"], ctx["tier"], ctx["info"]
    rnd = random.Random(ctx["seed"])
    known = load_known()
    cases = []
    cdir = os.path.join(vlib.VERIF, "corpus", "C14")
    if ctx.get("replay"):
        r = json.load(open(ctx["replay"]))
        rc = r.get("replay", r)
        if "case" in rc:
            cases.append(fix_case(rc["case"]))
    else:
        for f in sorted(os.listdir(cdir)) if os.path.isdir(cdir) else []:
            if f.endswith(".json"):
                c = json.load(open(os.path.join(cdir, f)))
                c["tag"] = "corpus/" + f
                cases.append(fix_case(c))
        cases += targeted_cases()
        nrand = 260 if tier == "quick" else 9000
        for _ in range(nrand):
            cases.append(random_case(rnd, 10 if tier == "quick" else 16))
    pairs = []
    if not ctx.get("replay"):
        pool = [c for c in cases if len(c["hist"]) <= 14]
        npair = 10 if tier == "quick" else 400
        pairs = [dict(c, tag="pair/" + c.get("tag", "")) for c in rnd.sample(pool, min(npair, len(pool)))]
    jobs = [(c, "fresh") for c in cases] + [(c, "pair:%d,%d,%d" % (1, rnd.randint(2, 6), rnd.randint(7, 40))) for c in pairs]
    order = list(range(len(jobs)))
    rnd.shuffle(order)                                  # balance the shards
    il = [case_lines(jobs[i][0], jobs[i][1])[0] for i in order]
    ml = [case_lines(jobs[i][0], jobs[i][1])[1] for i in order]
    env = {"ASAN_OPTIONS": "detect_leaks=1:abort_on_error=0:exitcode=99:allocator_may_return_null=1", "DBUS_FATAL_WARNINGS": "0"}
    ires, icr = vlib.run_lines(info["oom_h"], il, env=env, shards=min(vlib.NPROC, max(1, len(il) // 3)))
    mres, mcr = vlib.run_lines(info["model_oom"], ml, shards=min(vlib.NPROC, max(1, len(ml) // 50)))
    for line, err in icr:
        rep.violation("the C14 harness itself died on `%s`: %s" % (line[:300], err[-600:]), {"input": line, "stderr": err, "names": "harness/c/oom_h.c"}, found_input=False)
    for line, err in mcr:
        rep.violation("model driver died on `%s`: %s" % (line[:300], err[-300:]), {"input": line, "names": "ml/oom driver"}, found_input=False)
    stats = {"cases": 0, "failure_points": 0, "absorbed": 0, "atomic_fail": 0, "violating_points": 0, "crash_points": 0, "pair_cases": 0,
             "by_op": {}, "known": {}, "model_points": 0, "impl_allocs": 0}
    nontrivial = set()
    samples = []
    for pos, ji in enumerate(order):
        case, mode = jobs[ji]
        ir, mr = ires[pos], mres[pos]
        if ir == "!CRASH" or mr == "!CRASH":
            continue
        replay = {"case": case_json(case), "mode": mode, "impl_line": il[pos], "model_line": ml[pos],
                  "how": "echo '<impl_line>' | build/oom_h ; echo '<model_line>' | build/ml/oom/model"}
        if mr.startswith("?"):
            rep.violation("model driver refused `%s`: %s" % (ml[pos][:200], mr), dict(replay, names="ml/oom driver"), found_input=False)
            continue
        I, M = parse_result(ir), parse_result(mr)
        if I["base"] is None or not I["outs"]:
            rep.violation("unparsable harness output for `%s`: %s" % (il[pos][:200], ir[:300]), dict(replay, names="harness output"), found_input=False)
            continue
        stats["cases"] += 1
        stats["by_op"][case["test"][0]] = stats["by_op"].get(case["test"][0], 0) + 1
        if len(samples) < 6:
            samples.append(il[pos][:400])
        base = I["base"]
        finals = [o for n, o in I["outs"] if not o["special"] and o["f"] == 0]
        succ = finals[-1] if finals else None
        if succ is None:
            rep.violation("the request never completed even without an injected failure: %s" % ir[:400], replay)
            continue
        if base != M["base"]:
            rep.violation("prior state differs between implementation and model after the history: impl `%s` model `%s`" % (base[:300], (M["base"] or "")[:300]),
                          dict(replay, impl=ir[:2000], model=mr[:2000], names="Oom.Handlers.step (unfailed history) vs bus"), found_input=False)
            continue
        # ---- spec oracle on every implementation outcome
        bad = []
        for n, o in I["outs"]:
            if o["special"] == "GAP":
                continue
            stats["failure_points"] += n if o["f"] else 0
            why = judge(case, base, succ, o)
            if why is None:
                if o["f"] and not o["special"]:
                    if o["R"] == "":
                        stats["absorbed"] += n
                    else:
                        stats["atomic_fail"] += n
                continue
            stats["violating_points"] += n
            if o["special"]:
                stats["crash_points"] += n
            bad.append((n, o, why))
        ml_ = re.search(r"lsan=(\d+)", I["end"])
        if ml_ and int(ml_.group(1)) > 0 and not any(o["special"] for n, o in I["outs"]):
            rep.violation("LeakSanitizer found unreachable memory after the buses of this case were torn down: %s" % il[pos][:300], dict(replay, impl=ir[:2000]))
        mm = re.search(r"allocs=(-?\d+)", I["end"])
        mn = re.search(r"n=(\d+)", M["end"])
        if mm and mn:
            stats["impl_allocs"] += int(mm.group(1))
            stats["model_points"] += int(mn.group(1))
        # ---- correspondence
        if mode == "fresh":
            iseq, mseq = impl_sequence(I, succ), model_sequence(M)
            agree = iseq == mseq
            if agree and mm and mn and int(mn.group(1)) > int(mm.group(1)) >= 0:
                agree = False
                iseq = ["model lists %s allocation points, the real handler made only %s allocations" % (mn.group(1), mm.group(1))]
        else:
            stats["pair_cases"] += 1
            mset = set(norm(o) for n, o in M["outs"])
            iseq = [s for s in impl_sequence(I, succ)]
            mseq = sorted(mset)
            agree = all(s in mset for s in iseq)
        nontrivial.add((case["test"][0], base, tuple(iseq)))
        if not agree:
            # an oracle failure counts as a recorded finding only if the model predicts this very outcome
            mpred = set(mseq)
            real = [b for b in bad if not (classify_known(case, base, succ, b[1], b[2]) in known and norm(b[1]) in mpred)]
            if real:
                n, o, why = real[0]
                rep.violation("C14 violated by the implementation (and the model does not predict it): %s | case: %s" % (why, il[pos][:300]),
                              dict(replay, impl=ir[:3000], model=mr[:3000], k_count=n))
            else:
                rep.violation("implementation and model disagree on the sequence of outcomes over the failing index, the property oracle is satisfied (or only known findings): impl %s | model %s | case %s"
                              % (" >> ".join(x[:160] for x in iseq)[:700], " >> ".join(x[:160] for x in mseq)[:700], il[pos][:300]),
                              dict(replay, impl=ir[:3000], model=mr[:3000], names="Oom.Handlers.step_f vs bus under _dbus_set_fail_alloc_counter"), found_input=False)
            continue
        # ---- model = implementation: anything the oracle rejects must be a known finding
        for n, o, why in bad:
            fid = classify_known(case, base, succ, o, why)
            if fid in known:
                rep.known(known[fid], {"case": il[pos][:300], "points": n, "why": why[:200]})
                stats["known"][fid] = stats["known"].get(fid, 0) + n
                case.setdefault("_hits", set()).add(fid)
            else:
                rep.violation("C14 violated (model and implementation agree, not a recorded finding): %s | case: %s" % (why, il[pos][:300]),
                              dict(replay, impl=ir[:3000], model=mr[:3000], k_count=n))
    # the refutation witnesses of Props/C14.v (corpus/C14/f<id>_*.json) must still show their finding on the real code
    # (corpus/C14/f14_1_*.json are the former witnesses of F14.1, fixed: plain regression inputs now)
    # (f14_4_* likewise since c7c9e6b)
    want = {"f10a": "F10a", "f10b": "F10b", "f10c": "F10c"}
    for case, mode in jobs:
        t = case.get("tag", "")
        if mode == "fresh" and t.startswith("corpus/f"):
            fid = [v for k, v in want.items() if t[len("corpus/"):].startswith(k)]
            if fid and fid[0] not in case.get("_hits", ()):
                rep.violation("refutation witness %s no longer shows finding %s on the implementation (theorem C14_*_refuted would be about the model only)" % (t, fid[0]),
                              {"case": case_json(case), "names": "corpus witness vs Props/C14.v refutation"}, found_input=False)
    lib = run_lib(ctx, rnd, stats)
    strleg = run_str(ctx, rnd)
    rep.coverage.update({
        "evaluations": stats["failure_points"] + stats["cases"] + lib.get("lib_points", 0) + strleg.get("str_points", 0),
        "distinct_nontrivial": len(nontrivial) + lib.get("lib_distinct", 0) + strleg.get("str_distinct", 0),
        "cases": stats["cases"], "stats": stats, "lib": lib, "dbus_string": strleg,
        "rule": "one evaluation = one (prior state, request, failing allocation index) run on a fresh in-process bus, plus the unfailed run of each case; "
                "distinct = distinct (request kind, prior-state snapshot, ordered outcome sequence); library leg counted per (operation, failing index)",
        "samples": samples,
        "input_distribution": "corpus (refutation witnesses of Props/C14.v), %d targeted cases (every branch of bus_registry_acquire_service x 8 flag sets on 12 prior queue states, "
                              "ReleaseName by owner/waiter/stranger, invalid and reserved names, the three limits at 1/2/3, Hello with 0-2 NameOwnerChanged subscribers, second Hello, calls before Hello, "
                              "AddMatch/RemoveMatch on 0-3 existing rules incl. duplicates, calls/replies/errors requested, unrequested, from the wrong sender, answered twice, pending entry not first, "
                              "signals to 0-4 rules incl. the sender's own), then random histories (2-5 clients, 0-%d events, 1-3 names, limits 512/3/2, 128/2/1) with a random request under test; "
                              "pairs of failures (gaps 1, 2-6, 7-40) on a sample" % (len(targeted_cases()), 10 if tier == "quick" else 16),
        "traces_validated_against_impl": stats["cases"],
        "disagreements_checked": len(rep.violations),
        "disagreements_rule": "every outcome of every failing index goes through the model-independent oracle; model/implementation disagreement and oracle failures outside the recorded findings are violations",
        "explanation": "PROVED (Coq, all states satisfying the invariant, all failure sets): atomicity and retry for the request classes listed in notes/C14.md (safe classes), all-or-nothing "
                       "delivery of staged messages for every request, refutation witnesses for the unsafe classes (F10a-c); the former F14.1 classes (ReleaseName by the owner, replacing RequestName) are covered since the fix of restore_ownership. EXPLORED ONLY (harness): that the real allocator-level behaviour "
                       "matches the model's outcome sequence, 'leaks nothing' (_dbus_get_malloc_blocks_outstanding() == 0 after teardown + dbus_shutdown for every failing index, ASan for stale uses; "
                       "plus one LeakSanitizer pass per case), the library leg (message build/copy/edit, bus_match_rule_parse, bus_config_load under injection).",
    })
    rep.assumptions += [
        "model allocation points are coarser than real allocations: correspondence is on the ordered sequence of distinct outcomes, not on indices",
        "outcomes in which an injected failure was absorbed by a retry loop (transport read, dbus_connection_dispatch NEED_MEMORY, bus_connection_preallocate_oom_error loop) and the request completed are accepted as 'equals the unfailed step'",
        "build with assertions and DBUS_DISABLE_MEM_POOLS=1: an assertion failure or an ASan report is an outcome (STOP / DANGLING in the model)",
        "policy allows everything except unrequested replies; no monitors, no activation, no SELinux/AppArmor, no disconnects inside a case",
    ]


def fix_case(c):
    def fix_op(o):
        o = list(o)
        if o[0] in "RL":
            o[2] = bytes.fromhex(o[2]) if isinstance(o[2], str) else o[2]
        if o[0] == "M" and isinstance(o[2], str):
            o[2] = bytes.fromhex(o[2])
        return tuple(o)
    c = dict(c)
    c["hist"] = [fix_op(o) for o in c["hist"]]
    c["test"] = fix_op(c["test"])
    c["limits"] = tuple(c["limits"])
    return c


def case_json(c):
    def j(o):
        return [x.hex() if isinstance(x, bytes) else x for x in o]
    return {"limits": list(c["limits"]), "probes": c["probes"], "hist": [j(o) for o in c["hist"]], "test": j(c["test"]), "tag": c.get("tag", "")}


LIB_RULES = ["type='signal'", "type='signal',interface='a.b',member='C',arg0='x',path='/a'", "sender='org.freedesktop.DBus',arg0namespace='a.b'",
             "type='method_call',destination=':1.5',path_namespace='/x/y',arg3path='/z/'", "eavesdrop='true',type='error'",
             "type='signal',bogus", "type='nope'", "arg0='unterminated", "", "arg64='x'", "interface='not a name'"]


def lib_lines(rnd, tier):
    L = []
    for t in ("call", "signal", "ret", "err"):
        L.append("lib new %s %s %s %s %s" % (t, hx("a.b") if t == "call" else "-", hx("/a/b"), hx("a.b.E"), hx("Member")))
        L.append("lib new %s %s %s %s %s" % (t, hx("x" + ".y" * 60) if t == "call" else "-", hx("/" + "p" * 100), hx("i" + ".j" * 70), hx("M" * 200)))
    strs = ["", "x", "hello", "a" * 7, "a" * 8, "a" * 63, "a" * 64, "a" * 300]
    for st in strs:
        L.append("lib append s%s" % hx(st))
        L.append("lib copy s%s u7" % hx(st))
    for st in strs:
        L.append("lib marshal s%s u7" % hx(st))
        L.append("lib demarshal s%s" % hx(st))
    L += ["lib marshal u1", "lib marshal a%s:%s" % (hx("x"), hx("yy")), "lib demarshal u1 t5 y2", "lib demarshal a%s:%s u1" % (hx("x"), hx("y"))]
    L += ["lib append u5", "lib append y1 t99", "lib append s%s u5 t99 y3 s%s" % (hx("hello"), hx("w")), "lib append a%s:%s:%s" % (hx("x"), hx("yy"), hx("zzz")),
          "lib append a%s" % hx("only"), "lib copy a%s:%s u1" % (hx("x"), hx("y")), "lib copy u1"]
    vals = {"destination": ["a.b", "v.Dest", "a." + "b" * 200, ":1.7"], "sender": [":1.5", "org.freedesktop.DBus"], "member": ["X", "Member", "M" * 100],
            "interface": ["v.Iface", "q.r.s.t.u.v"], "path": ["/", "/v/obj", "/" + "a" * 150], "error_name": ["a.b.E"]}
    for f, vs in vals.items():
        for v in vs:
            L.append("lib set %s %s" % (f, hx(v)))
    L += ["lib set serial 77", "lib set serial 1"]
    for r in LIB_RULES:
        L.append("lib rule %s" % hx(r))
    for n in range(4):
        L.append("lib config %d" % n)
    for _ in range(20 if tier == "quick" else 400):
        k = rnd.random()
        w = "".join(rnd.choice("abcxyz") for _ in range(rnd.choice((0, 1, 3, 7, 8, 9, 15, 16, 17, 31, 33, 64, 129))))
        if k < 0.3:
            L.append("lib append " + " ".join(rnd.choice(("s" + hx(w), "u%d" % rnd.randrange(1 << 32), "y%d" % rnd.randrange(256), "t%d" % rnd.randrange(1 << 64),
                                                          "a" + ":".join(hx(w[:i + 1] or "q") for i in range(rnd.randint(1, 4))))) for _ in range(rnd.randint(1, 4))))
        elif k < 0.5:
            L.append("lib %s s%s u%d" % (rnd.choice(("copy", "marshal", "demarshal")), hx(w), rnd.randrange(1000)))
        elif k < 0.8:
            f = rnd.choice(("destination", "interface", "error_name", "sender"))
            L.append("lib set %s %s" % (f, hx("n." + (w or "m"))))
        else:
            L.append("lib rule %s" % hx("type='signal',member='%s',arg%d='%s'" % (w or "M", rnd.randrange(0, 64), w)))
    return list(dict.fromkeys(L))


def run_lib(ctx, rnd, stats):
    """library leg: message construction / copy / header edits, match-rule parsing, configuration loading under injection (no model; oracle only)"""
    rep, info = ctx["rep"], ctx["info"]
    known = load_known()
    lines = lib_lines(rnd, ctx["tier"])
    env = {"ASAN_OPTIONS": "detect_leaks=1:abort_on_error=0:exitcode=99:allocator_may_return_null=1", "DBUS_FATAL_WARNINGS": "0"}
    res, crashes = vlib.run_lines(info["oom_h"], lines, env=env, shards=min(vlib.NPROC, max(1, len(lines) // 8)))
    for line, err in crashes:
        rep.violation("library operation crashed under an injected allocation failure: `%s`: %s" % (line[:200], err[-600:]), {"input": line, "stderr": err})
    out = {"lib_cases": 0, "lib_points": 0, "lib_distinct": 0, "by_op": {}, "known": {}}
    distinct = set()
    for line, r in zip(lines, res):
        if r == "!CRASH":
            continue
        op = line.split()[1]
        out["lib_cases"] += 1
        out["by_op"][op] = out["by_op"].get(op, 0) + 1
        if re.search(r"lsan=[1-9]", r):
            rep.violation("LeakSanitizer found unreachable memory after library operation `%s` under injection" % line[:200], {"input": line, "result": r[:2000]})
        segs = [x for x in r.split(" ## ") if not x.startswith("end")]
        ref = None
        parsed = []
        for sgm in segs:
            m = re.match(r"^(\d+)\*f(\d)\|(.*)$", sgm, re.S)
            if not m:
                rep.violation("unparsable library-leg output for `%s`: %s" % (line[:200], r[:200]), {"input": line, "names": "harness output"}, found_input=False)
                parsed = None
                break
            parsed.append((int(m.group(1)), int(m.group(2)), m.group(3)))
        if not parsed:
            continue
        if parsed[-1][1] != 0:
            rep.violation("library operation never completed without injection: `%s`: %s" % (line[:200], r[:300]), {"input": line})
            continue
        ref = parsed[-1][2]
        distinct.add((op, tuple(v for _, _, v in parsed)))
        for n, f, v in parsed:
            out["lib_points"] += n
            if f == 0:
                if "BAD" in v:
                    rep.violation("library operation misbehaves without any injected failure: `%s`: %s" % (line[:200], v[:200]), {"input": line, "result": r[:2000]})
                continue
            status, _, rest = v.partition(";retry=")
            retry, _, probe = rest.partition(";probe=")
            if v == ref or (status == "oom-unchanged" and retry == ref and probe in ("", "same")):
                continue                                  # completed with the unfailed result, or failed cleanly, the retry gives the unfailed
                                                          # result and the message is as usable as one that never saw the failure
            fid = None
            if "reported-failure-but-message-changed" in status:
                # F14.2 is exactly the 7 reserved padding bytes left behind (and the retry repairs it); anything else a header edit leaves is new
                fid = "F14.2" if (op == "set" and status.endswith("reparse=invalid:len+7") and retry == ref) else "F14.3" if op == "append" else None
            if fid in known:
                rep.known(known[fid], {"case": line[:200], "points": n, "verdict": v[:120]})
                out["known"][fid] = out["known"].get(fid, 0) + n
            else:
                what = ("after the failed operation (and its retry) the message is not as usable as one that never saw the failure - set_member/set_sender/append/marshal return codes and bytes: %s" % probe[5:]) if probe.startswith("DIFF") else \
                       ("%s; retry %s" % (status[:120], "equals the unfailed result" if retry == ref else "differs: " + retry[:80]))
                rep.violation("C14 (library leg) violated: `%s` with a failing allocation: %s (unfailed: %s)" % (line[:200], what, ref[:60]),
                              {"input": line, "result": r[:3000], "how": "echo '<input>' | build/oom_h"})
    # dbus_message_marshal against Oom.DString.msg_marshal: same number of allocation points, every one of them fails cleanly
    mm, _ = vlib.run_lines(info["model_oom"], ["msgmarshal 16 4"])
    mfail = sum(int(x.split("*")[0]) for x in mm[0].split(" ## ") if "*f1|" in x) if mm and "allocs=" in mm[0] else None
    for line, r in zip(lines, res):
        if line.startswith("lib marshal ") and r != "!CRASH":
            ifail = sum(int(x.split("*")[0]) for x in r.split(" ## ") if re.match(r"^\d+\*f1\|", x))
            if mfail is None or ifail != mfail or "locked=1" in mm[0]:
                rep.violation("dbus_message_marshal makes %s fallible allocations, Oom.DString.msg_marshal lists %s (model line: %s)" % (ifail, mfail, mm[0][:200] if mm else "?"),
                              {"input": line, "result": r[:1000], "names": "Oom.DString.msg_marshal vs dbus_message_marshal"}, found_input=False)
    out["lib_distinct"] = len(distinct)
    return out


# ---- DBusString leg: primitives one-to-one against Oom.DString ---------------------------------
def str_lines(rnd, tier):
    L = []
    H = lambda b: hx(bytes(b))
    content = [b"", b"h", b"hello", b"1234567", b"12345678", b"123456789", bytes(range(1, 40))]
    caps = [0, 1, 7, 8, 16, 64]
    def ops_for(n):
        mid = n // 2
        o = []
        for at in sorted({0, mid, n}):
            for k in (0, 1, 3, 8):
                o.append("I%d,%d,%d" % (at, k, 170))
            o.append("B%d,%d" % (at, 7))
            for oct_ in (b"\x01\x02", b"\x01\x02\x03\x04", b"\x01\x02\x03\x04\x05\x06\x07\x08"):
                o.append("N%d,%s" % (at, H(oct_)))
            for a in (1, 2, 4, 8):
                o.append("G%d,%d" % (at, a))
            for src, st, ln in ((b"ABCDEF", 0, 6), (b"ABCDEF", 2, 3), (b"ABCDEF", 6, 0), (b"A", 0, 1)):
                o.append("C%s,%d,%d,%d" % (H(src), st, ln, at))
                for rl in sorted({0, min(1, n - at), min(ln, n - at), n - at}):
                    o.append("R%s,%d,%d,%d,%d" % (H(src), st, ln, at, rl))
        for k in (0, 1, 7, 8, 9):
            o += ["L%d" % k, "S%d" % k, "T%d" % k]
            if k <= n:
                o.append("H%d" % k)
        # (the _DBUS_STRING_MAX_LENGTH boundary is covered by the proofs only: the unary lengths of the extracted model cannot go there)
        o += ["T%d" % n, "T%d" % (n + 1)]
        for a in (1, 2, 4, 8):
            o.append("A%d" % a)
        o += ["P-", "P" + H(b"xyz"), "P" + H(b"x" * 9), "Y65"]
        for st in sorted({0, mid, n}):
            for ln in sorted({0, min(1, n - st), n - st}):
                o.append("D%d,%d" % (st, ln))
        return o
    for c in content:
        for cap in caps:
            hist = ["P" + H(c)] if c else []
            for o in ops_for(len(c)):
                L.append("str %d %s -- %s" % (cap, " ".join(hist), o))
    # histories that leave spare capacity behind (shorten / delete / alloc_space), then growth that fits exactly or not by one
    for spare in (1, 2, 7, 8, 9):
        hist = "P%s H%d" % (H(b"x" * 20), spare)
        for g in (spare - 1, spare, spare + 1):
            if g >= 0:
                L += ["str 0 %s -- L%d" % (hist, g), "str 0 %s -- I3,%d,1" % (hist, g), "str 0 %s -- P%s" % (hist, H(b"y" * g)),
                      "str 0 %s -- R%s,0,%d,2,1" % (hist, H(b"z" * (g + 1)), g + 1), "str 0 %s -- C%s,0,%d,%d" % ("P%s D0,%d" % (H(b"x" * 20), spare), H(b"q" * 12), g, 20 - spare)]
    nrand = 300 if tier == "quick" else 20000
    for _ in range(nrand):
        cap = rnd.choice((0, 0, 3, 8, 20, 100))
        n = 0
        hist = []
        for _ in range(rnd.randint(0, 4)):
            k = rnd.random()
            if k < 0.5:
                w = bytes(rnd.randrange(1, 255) for _ in range(rnd.choice((1, 3, 8, 13))))
                hist.append("P" + H(w)); n += len(w)
            elif k < 0.7 and n:
                d = rnd.randint(0, n); hist.append("H%d" % d); n -= d
            elif k < 0.85 and n:
                st = rnd.randint(0, n); ln = rnd.randint(0, n - st); hist.append("D%d,%d" % (st, ln)); n -= ln
            else:
                g = rnd.randint(0, 12); hist.append("S%d" % g)
        at = rnd.randint(0, n)
        src = bytes(rnd.randrange(1, 255) for _ in range(rnd.choice((0, 1, 5, 8, 17))))
        st = rnd.randint(0, len(src)); ln = rnd.randint(0, len(src) - st)
        op = rnd.choice(("L%d" % rnd.randint(0, 20), "T%d" % rnd.randint(0, n + 20), "I%d,%d,%d" % (at, rnd.randint(0, 10), 9), "B%d,%d" % (at, 3),
                         "A%d" % rnd.choice((1, 2, 4, 8)), "N%d,%s" % (at, H(bytes(range(1, 1 + rnd.choice((2, 4, 8)))))), "G%d,%d" % (at, rnd.choice((1, 2, 4, 8))),
                         "S%d" % rnd.randint(0, 20), "P" + H(src), "Y9", "C%s,%d,%d,%d" % (H(src), st, ln, at),
                         "R%s,%d,%d,%d,%d" % (H(src), st, ln, at, rnd.randint(0, n - at)), "R%s,%d,%d,%d,%d" % (H(src), st, ln, at, min(ln, n - at))))
        L.append("str %d %s -- %s" % (cap, " ".join(hist), op))
    return list(dict.fromkeys(x.replace("  ", " ") for x in L))


def masked_equal(impl, model):
    """contents equal where the model does not say 'uninitialised' (xx)"""
    if impl == model:
        return True
    if len(impl) != len(model):
        return False
    return all(m == "x" or m == i for i, m in zip(impl, model))


def run_str(ctx, rnd):
    rep, info = ctx["rep"], ctx["info"]
    lines = str_lines(rnd, ctx["tier"])
    env = {"ASAN_OPTIONS": "detect_leaks=0:abort_on_error=0:exitcode=99:allocator_may_return_null=1"}
    ires, icr = vlib.run_lines(info["oom_h"], lines, env=env)
    mres, mcr = vlib.run_lines(info["model_oom"], lines)
    for line, err in icr:
        rep.violation("DBusString operation crashed / asserted: `%s`: %s" % (line[:200], err[-500:]), {"input": line, "stderr": err})
    out = {"str_cases": 0, "str_points": 0, "str_fail_points": 0, "by_op": {}, "str_distinct": 0}
    distinct = set()
    for line, ir, mr in zip(lines, ires, mres):
        if ir == "!CRASH" or mr == "!CRASH":
            continue
        if mr.startswith("?"):
            rep.violation("model driver refused `%s`: %s" % (line, mr), {"input": line, "names": "ml/oom str"}, found_input=False)
            continue
        def parse(r):
            segs = r.split(" ## ")
            base = segs[0][5:].split("|") if segs[0].startswith("base=") else None
            outs = []
            for sg in segs[1:]:
                m = re.match(r"^(\d+)\*f(\d)\|(\d)\|(\d+)\|(\d+)\|(.*)$", sg)
                if m:
                    outs.append((int(m.group(1)), int(m.group(2)), int(m.group(3)), int(m.group(4)), int(m.group(5)), m.group(6)))
            ma = re.search(r"allocs=(-?\d+)", r)
            ml_ = re.search(r"leak=(-?\d+)", r)
            return base, outs, int(ma.group(1)) if ma else None, int(ml_.group(1)) if ml_ else 0
        ib, io, ia, il = parse(ir)
        mb, mo, ma, _ = parse(mr)
        replay = {"input": line, "impl": ir[:1500], "model": mr[:1500], "how": "echo '<input>' | build/oom_h ; echo '<input>' | build/ml/oom/model"}
        if not ib or not io:
            rep.violation("unparsable DBusString-leg output for `%s`: %s" % (line, ir[:200]), dict(replay, names="harness output"), found_input=False)
            continue
        opk = line.split(" -- ")[1][0]
        out["str_cases"] += 1
        out["by_op"][opk] = out["by_op"].get(opk, 0) + 1
        distinct.add((opk, ib[0], ib[1], tuple((o[1], o[2]) for o in io)))
        # oracle: a failure is reported by FALSE and leaves length, allocation and contents as they were
        ref = io[-1]
        bad = None
        if il != 0:
            bad = "blocks outstanding after the operation: %d" % il
        for n, f, ok, ln, al, hexs in io:
            out["str_points"] += n
            if f:
                out["str_fail_points"] += n
                if ok == 0 and (str(ln) != ib[0] or str(al) != ib[1] or hexs != ib[2]):
                    bad = "returned FALSE but the string changed: %d|%d|%s (was %s)" % (ln, al, hexs[:80], "|".join(ib)[:100])
                if ok == 1 and (ln, hexs) != (ref[3], ref[5]):
                    bad = "an injected failure was absorbed but the result differs from the unfailed one"
        agree = (ib[:2] == mb[:2] and masked_equal(ib[2], mb[2]) and ia == ma and len(io) == len(mo) and
                 all(a[:5] == b[:5] and masked_equal(a[5], b[5]) for a, b in zip(io, mo)))
        if bad and not agree:
            rep.violation("C14 (DBusString) violated: `%s`: %s" % (line[:200], bad), replay)
        elif bad:
            rep.violation("C14 (DBusString) violated, model and implementation agree: `%s`: %s" % (line[:200], bad), replay)
        elif not agree:
            rep.violation("DBusString model and implementation disagree (allocation count, success flag, length, allocated or contents) on `%s`: impl %s | model %s" % (line[:200], ir[:300], mr[:300]),
                          dict(replay, names="Oom.DString.run_sop vs dbus/dbus-string.c"), found_input=False)
    out["str_distinct"] = len(distinct)
    return out
