"""C02, byte-order conversion leg: byteswap_body_helper / _dbus_marshal_byteswap (dbus-marshal-byteswap.c),
_dbus_header_byteswap (dbus-marshal-header.c) and _dbus_message_byteswap (dbus-message.c) against the Coq model
Wire/Byteswap.v (extracted to ml/byteswap, proved equal to the specification codec in Proofs/ByteswapProofs.v).

Implementation side: `swap <hex>` of build/wire_h demarshals one message and walks it with the iterator API, which
converts the message to the host byte order in place (_dbus_message_byteswap), then prints the marshalled bytes.
On this little-endian host only 'B' messages are converted; 'l' messages must come back unchanged.
Model side: `bswap <hex>` of build/ml/byteswap/model prints the model's conversion of the same bytes."""
import os, sys
import vlib
sys.path.insert(0, os.path.join(vlib.VERIF, "tools"))
sys.path.insert(0, os.path.join(vlib.VERIF, "harness", "py"))
import wiregen
from rawbus import Msg, Variant, split_sig

ELEM_TYPES = ["y", "b", "n", "q", "i", "u", "x", "t", "d", "s", "o", "g", "v", "ai", "ax", "as", "av", "aas", "(ii)", "(yx)", "(s)", "a(ii)",
              "{sv}", "{ys}", "{xi}", "a{sv}", "(a{sv}i)", "(v)"]
FOLLOW = [("y", 7), ("n", -2), ("i", 0x01020304), ("s", "abc"), ("x", 0x0102030405060708), ("g", "ai")]

SAMPLE_VAL = {"y": 0x11, "b": True, "n": 0x1234, "q": 0xfedc, "i": 0x01020304, "u": 0xf1f2f3f4, "x": 0x0102030405060708, "t": 0xf1f2f3f4f5f6f7f8,
              "d": 1.5, "s": "hi!", "o": "/a/b", "g": "a{sv}"}


def sample(sig, k=0):
    """a deterministic non-symmetric value of single complete type sig"""
    c = sig[0]
    if c in SAMPLE_VAL:
        v = SAMPLE_VAL[c]
        if c == "s":
            return "s" * (k % 9)
        return v
    if c == "v":
        t = ("i", "x", "s", "ai", "(yx)", "v", "a{sv}")[k % 7]
        return Variant(t, sample(t, k + 1) if t != "v" else Variant("q", 0x0102))
    if c == "a":
        et = sig[1:]
        n = k % 3 + 1
        if et[0] == "{":
            inner = split_sig(et[1:-1])
            return [(sample(inner[0], k + j), sample(inner[1], k + j + 1)) for j in range(n)]
        return [sample(et, k + j) for j in range(n)]
    if c in "({":
        return tuple(sample(t, k + j) for j, t in enumerate(split_sig(sig[1:-1])))
    raise ValueError(sig)


def directed():
    """(label, sig, body) triples aimed at the case splits of the converter"""
    out = []
    # empty / short arrays of every element type, at every offset mod 8, followed by small and large values:
    # the padding between the length word and the first element position exists even when the array is empty
    for et in ELEM_TYPES:
        for k in range(8):
            for ft, fv in FOLLOW:
                out.append(("empty-array", "y" * k + "a" + et + ft, tuple([k + 1] * k) + ([], fv)))
            out.append(("empty-array-last", "y" * k + "a" + et, tuple([k + 1] * k) + ([],)))
            for n in (1, 2):
                vals = [sample(et, k + j) for j in range(n)]
                out.append(("short-array", "y" * k + "a" + et + "n", tuple([k + 1] * k) + (vals, 0x0102)))
    # empty arrays nested in containers (struct / variant / array of arrays / dict value)
    for et in ("x", "(ii)", "{sv}", "s", "v", "ai", "d"):
        out.append(("empty-in-struct", "(ya%s)i" % et, ((1, []), 5)))
        out.append(("empty-in-struct8", "(ia%sy)t" % et, ((1, [], 2), 5)))
        out.append(("empty-in-variant", "yvq", (1, Variant("a" + et, []), 0x0102)))
        out.append(("empty-in-array", "aa%sq" % et, ([[], [], []], 0x0102)))
        out.append(("empty-in-dict", "a{sa%s}y" % et, ([("k", []), ("l", [])], 3)))
        out.append(("empty-in-varstruct", "v", (Variant("(ya%sx)" % et, (1, [], 2)),)))
    # nested variants, at every offset
    for k in range(8):
        v = Variant("x", 0x0102030405060708)
        for depth in range(1, 12, 2):
            v = Variant("v", v)
            out.append(("nested-variant", "y" * k + "vn", tuple([9] * k) + (v, 0x0102)))
        out.append(("variant-array-of-struct", "y" * k + "v", tuple([9] * k) + (Variant("a(ix)", [(1, 2), (3, 4)]),)))
        out.append(("variant-struct", "y" * k + "vy", tuple([9] * k) + (Variant("(yx)", (1, 2)), 3)))
        out.append(("variant-dict", "y" * k + "v", tuple([9] * k) + (Variant("a{sv}", [("a", Variant("i", 1)), ("bc", Variant("as", ["x", "yz"]))]),)))
    # 64-bit (and 16/32-bit) values after strings of every length mod 8, signatures likewise
    for n in range(0, 18):
        for t in "xtdiqn":
            out.append(("after-string", "s" + t, ("s" * n, SAMPLE_VAL[t])))
            out.append(("after-path", "o" + t, ("/" + "p" * n if n else "/", SAMPLE_VAL[t])))
        out.append(("after-signature", "gx", ("i" * n, 0x0102030405060708)))
        out.append(("string-array", "asx", (["s" * n, "t" * (n + 1)], 0x0102030405060708)))
    # arrays of fixed-size elements of every width, odd counts, followed by wider values
    for t in "ybnqiuxtd":
        for n in (1, 2, 3, 7):
            out.append(("fixed-array", "ya%sx" % t, (1, [sample(t)] * n, 2)))
    out.append(("empty-body", "", ()))
    out.append(("dict-of-everything", "a{sv}i", ([("a", Variant("a{sv}", [])), ("b", Variant("(ii)", (1, 2))), ("c", Variant("x", 3))], 4)))
    out.append(("a{sv}-then-i", "a{sv}i", ([], 0x01020304)))
    return out


def leg(ctx, rep, rnd, tier, only=None):
    """returns coverage numbers; reports violations through rep"""
    info = ctx["info"]
    try:
        model_exe = vlib.build_ml("byteswap")
    except vlib.BuildBroken as e:
        rep.violation("byteswap model does not build: %s" % str(e)[-800:], {"leg": "byteswap", "names": "coq/Extract/ExtractByteswap.v, ml/byteswap"}, found_input=False)
        return {"byteswap_cases": 0}
    cases = []       # (label, le, message bytes, the same message in the other order per the generator's encoder)
    if only is not None:
        b = bytes.fromhex(only)
        cases.append(("replay", b[:1] == b"l", b, None))
    else:
        old_fd, wiregen.ALLOW_FD = wiregen.ALLOW_FD, False     # 'h' values need descriptors attached: demarshal would reject them
        try:
            hdr = {1: "/a", 2: "a.b", 3: "S"}
            for label, sig, body in directed():
                for mtype, f in ((4, hdr), (2, {5: 0x01020304, 6: ":1.5"})):
                    m = Msg(mtype, 0, 0x0a0b0c0d, f, sig, body)
                    enc = {}
                    for le in (True, False):
                        m.le = le
                        enc[le] = m.encode()
                    cases.append((label, True, enc[True], enc[False]))
                    cases.append((label, False, enc[False], enc[True]))
            for _ in range(1500 if tier == "quick" else 40000):
                m = wiregen.rand_message(rnd, max_depth=rnd.choice((1, 2, 3, 3, 4)))
                enc = {}
                for le in (True, False):
                    m.le = le
                    enc[le] = wiregen.encode(m)
                cases.append(("random", True, enc[True], enc[False]))
                cases.append(("random", False, enc[False], enc[True]))
        finally:
            wiregen.ALLOW_FD = old_fd
    seen, uniq = set(), []
    for c in cases:
        if c[2] not in seen:
            seen.add(c[2])
            uniq.append(c)
    cases = uniq
    impl, icr = vlib.run_lines(info["wire_h"], ["swap " + vlib.hexs(c[2]) for c in cases])
    model, mcr = vlib.run_lines(model_exe, ["bswap " + vlib.hexs(c[2]) for c in cases])
    for line, err in icr:
        rep.violation("implementation crashed / asserted while converting a valid message to the host byte order: `%s`: %s" % (line[:300], err[-700:]),
                      {"input": line, "stderr": err, "leg": "byteswap"})
    for line, err in mcr:
        rep.violation("byteswap model driver crashed on `%s`: %s" % (line[:200], err[-300:]), {"input": line, "leg": "byteswap", "names": "ml/byteswap driver"}, found_input=False)
    def body_sig(b):
        """the body signature as written in the message (field 8), for counting distinct shapes"""
        i = b.find(b"\x08\x01g\x00", 16)
        return b[i + 5:i + 5 + b[i + 4]] if i >= 0 else b""
    n = {"byteswap_cases": len(cases), "byteswap_distinct_signatures": len({body_sig(c[2]) for c in cases}), "byteswap_converted_by_impl": 0, "byteswap_le_unchanged": 0, "byteswap_rejected_by_loader": 0,
         "byteswap_directed": 0, "byteswap_labels": {}}
    second = []
    for (label, le, b, other), i, m in zip(cases, impl, model):
        hexb = vlib.hexs(b)
        replay = {"input": "swap " + hexb, "message": hexb, "leg": "byteswap", "label": label, "impl": i[-600:], "model": m[:600]}
        if i == "!CRASH":
            continue
        if label != "random":
            n["byteswap_directed"] += 1
        n["byteswap_labels"][label] = n["byteswap_labels"].get(label, 0) + 1
        if not m.startswith("ok "):
            rep.violation("byteswap model gives `%s` on a generated valid message (%s)" % (m[:60], label),
                          dict(replay, names="correspondence Wire.Byteswap.byteswap_message vs generator"), found_input=False)
            continue
        mb = m[3:]
        if other is not None and mb != vlib.hexs(other):
            rep.violation("byteswap model's conversion differs from the generator's encoding in the other byte order (%s)" % label,
                          dict(replay, other=vlib.hexs(other), names="correspondence Wire.Byteswap.byteswap_message vs harness/py/rawbus.py encoder"), found_input=False)
        second.append((hexb, mb))
        if i == "corrupt" or " bytes=" not in i:
            n["byteswap_rejected_by_loader"] += 1
            if label != "random":
                rep.violation("a directed valid message is rejected by dbus_message_demarshal (%s): %s" % (label, i[:80]), dict(replay, names="generator validity"), found_input=False)
            continue
        ib = i.rsplit(" bytes=", 1)[1]
        if le:
            n["byteswap_le_unchanged"] += 1
            if ib != hexb:
                rep.violation("a message already in the host byte order changed while being read (%s)" % label, replay)
            continue
        n["byteswap_converted_by_impl"] += 1
        if ib != mb:
            k = next((j for j in range(0, min(len(ib), len(mb)), 2) if ib[j:j + 2] != mb[j:j + 2]), min(len(ib), len(mb))) // 2
            rep.violation("byte-order conversion of a valid big-endian message differs from the proved converter model at byte %d (%s): impl ...%s model ...%s" % (
                k, label, ib[max(0, 2 * k - 16):2 * k + 16], mb[max(0, 2 * k - 16):2 * k + 16]), replay)
    # the model's conversion is an involution on these messages (cross-check of the driver, cheap)
    back, _ = vlib.run_lines(model_exe, ["bswap " + mb for _, mb in second])
    for (hexb, mb), r in zip(second, back):
        if r != "ok " + hexb:
            rep.violation("byteswap model is not an involution on a generated message", {"input": "bswap " + hexb, "leg": "byteswap", "model_twice": r[:300],
                                                                                          "names": "Proofs/ByteswapProofs.byteswap_message_involutive vs extracted code"}, found_input=False)
    n["byteswap_involution_checked"] = len(second)
    return n
