"""C06 — security policy decisions equal the documented rule semantics.

Two correspondence legs against the tree under test:
 (a) decision level: harness/c/policy_h.c builds BusPolicyRule / BusClientPolicy objects and calls
     bus_client_policy_check_can_send / _can_receive / _can_own before and after bus_client_policy_optimize;
     the extracted model (coq/Policy/Policy.v) and the specification oracle (coq/Spec/PolicySpec.v) get the same line;
 (b) end to end: the real dbus-daemon is started on a generated configuration file (real parser, real merge of
     contexts), raw clients of different uids / group sets connect, add match rules, request names and send probe
     messages; what every client receives after an ordering barrier is compared with the extracted bus model
     (coq/Policy/PolicyBus.v)."""
import glob, json, multiprocessing, os, random, sys
import vlib

sys.path.insert(0, os.path.join(vlib.VERIF, "harness", "py"))
import policy_e2e as pe

HARNESSES = (("policy_h", ["libdbus-daemon-internal.a"]),)
MLS = ("policy",)
THEOREMS = [
    "C06_send_last_match", "C06_receive_last_match", "C06_own_last_match",
    "C06_send_literal_partial", "C06_receive_literal_partial", "C06_literal_refuted",
    "C06_context_order",
    "C06_optimize_sound_partial", "C06_optimize_sound_refuted", "C06_optimize_fixed_sound", "C06_optimize_sound_if_condition_ok",
    "C06_client_policy_partial",
    "C06_denied_not_delivered", "C06_delivered_only_if_permitted", "C06_denied_broadcast_not_delivered", "C06_denied_call_gets_access_denied_partial",
    "C06_denied_call_refuted", "C06_denied_own_changes_nothing",
    "C06_config_tree_order", "C06_config_tree_fatal", "C06_include_literal_partial", "C06_include_literal_refuted",
    "C06_admission", "C06_connect_refused",
    "C06_reload_judged_by_old_policy", "C06_reload_failed", "C06_reload_effect", "C06_reload_decides_by_new_config",
]

MAXFDS = pe.MAXFDS
NAMES = pe.NAMES + [pe.DRIVER, "com.ex", "com.exx"]


def load_known():
    """only known-findings.json counts (entries with status "known"; fixed ones are violations again if they show)"""
    return {k["id"]: k for k in vlib.load_known("C06")}


# --------------------------------------------------------------------------- decision level
def oh(s):
    return "~" if s is None else pe.hexs(s)


def rule_line(r):
    return "r %s %d %d %s %s %s %s %s %d %d %d %d %d %d %d" % (
        r["k"], r["allow"], r["mtype"], oh(r["path"]), oh(r["iface"]), oh(r["member"]), oh(r["error"]), oh(r["name"]),
        r["maxfds"], r["minfds"], r["eav"], r["rr"], r["log"], r["bcast"], r["prefix"])


def query_line(q):
    return "q %d %s %s %s %s %s %s %d %d %d %d ~ ~ %s" % (
        q["type"], oh(q["path"]), oh(q["iface"]), oh(q["member"]), oh(q["error"]), oh(q["dest"]), oh(q["sender"]),
        q["rs"], q["nfds"], q["req"], q["eav"], pe.hexs(q["own"]))


def dec_line(rules, q):
    return "dec " + " ; ".join([rule_line(r) for r in rules] + [query_line(q)])


def gen_raw_rule(rnd, wild=0.6):
    k = rnd.choice("sssrrro")
    def opt(pool):
        return None if rnd.random() < wild else rnd.choice(pool)
    r = {"k": k, "allow": rnd.randint(0, 1), "mtype": 0, "path": None, "iface": None, "member": None, "error": None, "name": None,
         "maxfds": 0, "minfds": 0, "eav": 0, "rr": 0, "log": 0, "bcast": 0, "prefix": 0}
    if k == "o":
        r["name"] = opt(NAMES)
        r["prefix"] = 1 if (r["name"] is not None and rnd.random() < 0.4) else 0
        return r
    r["mtype"] = 0 if rnd.random() < wild else rnd.randint(1, 4)
    r["path"], r["iface"], r["member"], r["error"] = opt(pe.PATHS), opt(pe.IFACES), opt(pe.MEMBERS), opt(pe.ERRORS)
    r["name"] = opt(NAMES)
    r["maxfds"] = rnd.choice((MAXFDS, MAXFDS, MAXFDS, MAXFDS, 0, 1, 2, MAXFDS - 1))
    r["minfds"] = rnd.choice((0, 0, 0, 0, 1, 2))
    r["eav"], r["rr"] = rnd.randint(0, 1), rnd.randint(0, 1)
    if rnd.random() < 0.5:
        r["rr"] = r["allow"]          # the parser's default
    if k == "s":
        r["log"] = 1 if rnd.random() < 0.1 else 0
        r["bcast"] = rnd.choice((0, 0, 0, 1, 2))
        r["prefix"] = 1 if (r["name"] is not None and rnd.random() < 0.3) else 0
    return r


def gen_query(rnd, rules):
    def opt(pool, p=0.35):
        return None if rnd.random() < p else rnd.choice(pool)
    q = {"type": rnd.randint(1, 4), "path": opt(pe.PATHS), "iface": opt(pe.IFACES), "member": opt(pe.MEMBERS), "error": opt(pe.ERRORS, 0.7),
         "dest": opt(NAMES + ["com.ex.A.sub", "com.ex.AB"], 0.3), "sender": opt([pe.DRIVER] + NAMES, 0.3), "rs": rnd.choice((0, 0, 5)),
         "nfds": rnd.choice((0, 0, 0, 1, 2, 3)), "req": rnd.randint(0, 1), "eav": rnd.randint(0, 1),
         "own": rnd.choice(NAMES + ["com.ex.A", "com.ex.A.sub", "com.ex.AB", "com.ex.B.x"])}
    if rules and rnd.random() < 0.6:
        # aim at one rule: copy its fields so that it (nearly) matches
        r = rnd.choice(rules)
        if r["mtype"]: q["type"] = r["mtype"]
        for f in ("path", "iface", "member", "error"):
            if r[f] is not None and rnd.random() < 0.85: q[f] = r[f]
        if r["name"] is not None and rnd.random() < 0.85:
            n = r["name"] + (rnd.choice(("", ".x", "x")) if r["prefix"] else "")
            if r["k"] == "s": q["dest"] = n
            elif r["k"] == "r": q["sender"] = n
            else: q["own"] = n
        if r["k"] == "s" and r["bcast"] == 2 and rnd.random() < 0.8: q["type"], q["dest"] = 4, None
        if r["k"] != "o": q["nfds"] = rnd.choice((r["minfds"], r["maxfds"] if r["maxfds"] < 4 else 0, q["nfds"]))
    if q["type"] in (2, 3) and rnd.random() < 0.9: q["rs"] = 5
    return q


REDUCED = None


def reduced_rules():
    """reduced attribute alphabet for the exhaustive part: send and receive rules over verdict x type x name x broadcast x min_fds x modifiers"""
    global REDUCED
    if REDUCED is None:
        out = []
        for k in "sr":
            for allow in (0, 1):
                for mtype in (0, 1):
                    for name in (None, "com.ex.A"):
                        for bcast in ((0, 1, 2) if k == "s" else (0,)):
                            for minfds in (0, 1):
                                for rr in (0, 1):
                                    for eav in (0, 1):
                                        out.append({"k": k, "allow": allow, "mtype": mtype, "path": None, "iface": None, "member": None, "error": None,
                                                    "name": name, "maxfds": MAXFDS, "minfds": minfds, "eav": eav, "rr": rr, "log": 0, "bcast": bcast, "prefix": 0})
        for allow in (0, 1):
            for name, prefix in ((None, 0), ("com.ex.A", 0), ("com.ex.A", 1), ("com.ex", 1)):
                out.append({"k": "o", "allow": allow, "mtype": 0, "path": None, "iface": None, "member": None, "error": None, "name": name,
                            "maxfds": 0, "minfds": 0, "eav": 0, "rr": 0, "log": 0, "bcast": 0, "prefix": prefix})
        REDUCED = out
    return REDUCED


def reduced_queries():
    out = []
    for ty, dest, rs in ((1, "com.ex.A", 0), (1, "com.ex.B", 0), (4, None, 0), (4, "com.ex.A", 0), (2, "com.ex.A", 5), (3, "com.ex.B", 5), (1, "com.ex.A", 5)):
        for nfds in (0, 1):
            for req in (0, 1):
                for eav in (0, 1):
                    if rs == 0 and req: continue
                    out.append({"type": ty, "path": "/p", "iface": "com.ex.I", "member": "M1", "error": "com.ex.Err" if ty == 3 else None, "dest": dest,
                                "sender": "com.ex.A", "rs": rs, "nfds": nfds, "req": req, "eav": eav, "own": "com.ex.A.sub"})
    return out


def gen_dec_cases(tier, rnd):
    cases = []
    rr, rq = reduced_rules(), reduced_queries()
    for r in rr:
        for q in rq:
            cases.append(([r], q))
    # pairs: every reduced rule followed by every reduced rule of the same kind that has no type / name / fd restriction
    # (the candidates for the optimiser's catch-all test), on a few messages
    tails = [r for r in rr if r["mtype"] == 0 and r["name"] is None]
    qs = rq if tier != "quick" else rq[::5]
    for r1 in rr:
        for r2 in tails:
            if r1["k"] != r2["k"]: continue
            for q in qs:
                cases.append(([r1, r2], q))
    if tier != "quick":
        for r1 in rr[::3]:
            for r2 in rr[::5]:
                for r3 in tails[::2]:
                    cases.append(([r1, r2, r3], rnd.choice(rq)))
    n = 6000 if tier == "quick" else 400000
    for _ in range(n):
        rules = [gen_raw_rule(rnd, rnd.choice((0.5, 0.7, 0.85))) for _ in range(rnd.randint(1, 6))]
        cases.append((rules, gen_query(rnd, rules)))
    return cases


DEV_BITS = {1: "C06-D1", 2: "C06-D2", 4: "C06-D3"}


def attribute(spec8, impl):
    """smallest sets of deviations under which the specification gives the implementation's decision"""
    best = None
    for i in range(8):
        if spec8[i] == impl:
            n = bin(i).count("1")
            if best is None or n < best[0]:
                best = (n, [i])
            elif n == best[0]:
                best[1].append(i)
    return best


def check_dec(rep, known, cases, info, stats):
    lines = [dec_line(rs, q) for rs, q in cases]
    impl, icr = vlib.run_lines(info["policy_h"], lines)
    model, mcr = vlib.run_lines(info["model_policy"], lines)
    for line, err in icr:
        rep.violation("policy_h (bus/policy.c) crashed / sanitizer report on `%s`: %s" % (line[:300], err[-600:]), {"line": line, "stderr": err})
    for line, err in mcr:
        rep.violation("extracted policy model failed on `%s`: %s" % (line[:200], err[-300:]), {"line": line, "names": "model driver"}, found_input=False)
    nontrivial = set()
    for line, i, m in zip(lines, impl, model):
        if i == "!CRASH" or m == "!CRASH":
            continue
        it, mt = i.split(), m.split()
        if len(it) != 9 or len(mt) != 15 or it[0] != "S" or len(mt[1]) != 4:
            rep.violation("unparsable result for `%s`: impl=%r model=%r" % (line[:200], i, m), {"line": line, "names": "dec line protocol"}, found_input=False)
            continue
        iS, iR, iO, ilraw, ilopt = it[1], it[3], it[5], it[7], it[8]
        mS, sS, mR, sR, mO, sO = mt[1], mt[2], mt[4], mt[5], mt[7], mt[8]
        mlraw, mlopt = mt[10], mt[11]
        stats["dec"] += 1
        if "1" in iS + iR + iO or iS[0] != iS[1] or iR[0] != iR[1] or iO[0] != iO[1]:
            nontrivial.add(line)
        for what, iv, mv, sv in (("send", iS, mS, sS), ("receive", iR, mR, sR), ("own", iO, mO, None)):
            spec_lit = sv[0] if sv is not None else sO
            spec_code = sv[7] if sv is not None else sO
            # (1) the raw rule list: implementation vs model, with the literal specification as oracle
            if iv[0] != mv[0]:
                if iv[0] != spec_lit:
                    rep.violation("%s decision of bus/policy.c is %s, the documented evaluation gives %s (model %s): %s" % (what, iv[0], spec_lit, mv[0], line[:400]),
                                  {"line": line, "impl": i, "model": m, "what": what})
                else:
                    # the implementation follows the literal manual page where the model has a known deviation: only the model is off
                    rep.violation("%s decision: implementation %s, model %s (spec %s): %s" % (what, iv[0], mv[0], spec_lit, line[:400]),
                                  {"line": line, "impl": i, "model": m, "names": "correspondence policy_h vs Policy.check_can_%s" % what}, found_input=False)
                continue
            if mv[0] != spec_code and mv[0] != "F":
                rep.violation("model and spec[dev_code] disagree (%s) although proved equal: %s" % (what, line[:300]), {"line": line, "names": "spec oracle vs model"}, found_input=False)
            if iv[0] != spec_lit:
                best = attribute(sv, iv[0]) if sv is not None else None
                ids = [DEV_BITS[b] for b in DEV_BITS if best and best[1] and (best[1][0] & b)]
                if best and ids and all(x in known for x in ids):
                    for x in ids:
                        rep.known(known[x], line[:400])
                        stats["known"][x] = stats["known"].get(x, 0) + 1
                else:
                    rep.violation("%s decision of code and model is %s, the manual page gives %s, and no known deviation explains it: %s" % (what, iv[0], spec_lit, line[:400]),
                                  {"line": line, "impl": i, "model": m, "what": what})
            # (2) after bus_client_policy_optimize
            if iv[1] != mv[1]:
                if iv[1] != iv[0]:
                    if "F3" in known and mv[1] == mv[0]:
                        rep.violation("bus_client_policy_optimize changes the %s decision (%s -> %s) where the modelled optimiser does not: %s" % (what, iv[0], iv[1], line[:400]),
                                      {"line": line, "impl": i, "model": m, "what": what})
                    else:
                        rep.violation("bus_client_policy_optimize changes the %s decision (%s -> %s): %s" % (what, iv[0], iv[1], line[:400]),
                                      {"line": line, "impl": i, "model": m, "what": what})
                else:
                    rep.violation("optimised %s decision: implementation %s, model %s: %s" % (what, iv[1], mv[1], line[:400]),
                                  {"line": line, "impl": i, "model": m, "names": "correspondence bus_client_policy_optimize vs Policy.optimize"}, found_input=False)
                continue
            if iv[1] != iv[0]:
                # code = model: pruning changed a decision.  That is F3 if the optimiser test frozen from 1.13.18 prunes the same way.
                if "F3" in known and mv[3] == mv[1]:
                    rep.known(known["F3"], line[:400])
                    stats["known"]["F3"] = stats["known"].get("F3", 0) + 1
                else:
                    rep.violation("bus_client_policy_optimize changes the %s decision (%s -> %s): %s" % (what, iv[0], iv[1], line[:400]),
                                  {"line": line, "impl": i, "model": m, "what": what})
            if mv[2] != mv[0] and mv[0] != "F":
                rep.violation("the corrected optimiser changes a decision although proved sound: %s" % line[:300], {"line": line, "names": "fixed optimiser"}, found_input=False)
        if (ilraw, ilopt) != (mlraw, mlopt):
            rep.violation("rule list length after optimize: implementation %s->%s, model %s->%s: %s" % (ilraw, ilopt, mlraw, mlopt, line[:300]),
                          {"line": line, "impl": i, "model": m, "names": "correspondence bus_client_policy_optimize vs Policy.optimize (length)"}, found_input=False)
    return len(lines), len(nontrivial)


# --------------------------------------------------------------------------- configuration trees at decision level
CFG_UIDS = (0, 1, 2, 3, 4242)
CFG_NAMES = ("com.ex.A", "com.ex.A.sub", "com.ex.AB", "com.ex.B", "com.ex")


def gen_cfg_tree(rnd):
    nconn = 3
    elems = pe.gen_policy_elems(rnd, nconn, [0, 1, 2, 3], [0, 1, 2, 3, 4], [])
    # more ownership and admission rules in default / mandatory contexts, where this leg can see them
    for e in elems:
        if e[0] in ("d", "m") and rnd.random() < 0.7:
            for _ in range(rnd.randint(1, 3)):
                e[1].insert(rnd.randint(0, len(e[1])), rnd.choice((
                    [rnd.random() < 0.5, [["own", rnd.choice(CFG_NAMES + ("*",))]]],
                    [rnd.random() < 0.5, [["own_prefix", rnd.choice(("com.ex", "com.ex.A", "com"))]]],
                    pe.gen_conn_rule(rnd))))
    return pe.wrap_tree(rnd, elems, fatal_rate=0.06)


def check_cfg(rep, known, trees, info, stats):
    """bus_config_load + bus_config_parser_steal_policy on real files (policy_h `cfg`) against load_config / denote"""
    import shutil, tempfile
    root = tempfile.mkdtemp(prefix="verif_c06cfg_")
    try:
        ilines, mlines = [], []
        decl = ["N u %s %d" % (pe.hexs(n), u) for u, n in pe.USERS.items()] + ["N g %s %d" % (pe.hexs(n), g) for g, n in pe.GROUPS.items()]
        for k, tree in enumerate(trees):
            d = os.path.join(root, "t%d" % k)
            os.mkdir(d)
            w = pe.TreeWriter(d, os.path.join(d, "bus"))
            w.write_top(tree)
            q_impl = " ; ".join(["u %d" % u for u in CFG_UIDS] + ["o %s" % pe.hexs(n) for n in CFG_NAMES])
            q_model = " ; ".join(["u %d %s" % (u, "~" if u not in pe.DB_GROUPS else ",".join(map(str, pe.DB_GROUPS[u]))) for u in CFG_UIDS] +
                                 ["o %s" % pe.hexs(n) for n in CFG_NAMES])
            ilines.append("cfg %s ; %s" % (os.path.join(d, "bus.conf"), q_impl))
            mlines.append("cfg " + " ; ".join(decl + ["T"] + pe.tree_items(tree) + ["X"]) + " ; " + q_model)
        impl, icr = vlib.run_lines(info["policy_h"], ilines, env={"DBUS_FATAL_WARNINGS": "0"})
        model, mcr = vlib.run_lines(info["model_policy"], mlines)
    finally:
        shutil.rmtree(root, ignore_errors=True)
    for line, err in icr:
        if "AddressSanitizer" in err or "runtime error" in err or "ssertion" in err:
            rep.violation("bus_config_load crashed / sanitizer report on a generated configuration tree: %s" % err[-700:], {"line": line, "stderr": err})
    nontrivial = 0
    for tree, i, m in zip(trees, impl, model):
        if i == "!CRASH" or m == "!CRASH" or m.startswith("?"):
            if m.startswith("?"):
                rep.violation("model could not read a configuration tree: %s" % m[:200], {"tree": tree, "names": "model driver (cfg)"}, found_input=False)
            continue
        stats["cfg"] = stats.get("cfg", 0) + 1
        mm, spec, d4 = m.split(" ## ")
        if i.startswith("OK") and ("1" in i):
            nontrivial += 1
        replay = {"tree": tree, "config": pe.to_xml({"files": tree, "ops": []})[:3000], "impl": i, "model": m}
        if i != mm:
            if i != spec:
                rep.violation("the policy built from a tree of configuration files differs from the documented reading (textual inclusion, context order, "
                              "admission rules): bus_config_load gives [%s], the manual page [%s] (model [%s])" % (i, spec, mm), replay)
            else:
                rep.violation("configuration tree: implementation [%s], model [%s], specification [%s]" % (i, mm, spec),
                              dict(replay, names="correspondence bus_config_load/bus_policy_merge vs PolicyConfig.load_config"), found_input=False)
            continue
        if mm != spec:
            rep.violation("load_config and denote disagree although proved equal: [%s] vs [%s]" % (mm, spec), dict(replay, names="spec oracle vs model (cfg)"), found_input=False)
        if d4 == "D4=1":
            if "C06-D4" in known:
                rep.known(known["C06-D4"], {"config": replay["config"][:500]})
                stats["known"]["C06-D4-cfg"] = stats["known"].get("C06-D4-cfg", 0) + 1
            else:
                rep.violation("a configuration tree is read differently from the literal manual page (ignore_missing swallows an existing file)", replay)
    return len(trees), nontrivial


# --------------------------------------------------------------------------- end to end
def _run_scn(arg):
    exe, scn = arg
    try:
        return ("ok",) + pe.run_daemon(exe, scn)
    except pe.DaemonCrash as e:
        return ("crash", str(e), "")
    except Exception as e:      # connection refused, barrier timeouts ...
        import traceback
        return ("exc", traceback.format_exc()[-1500:], "")


POLICY_TAGS = ("P", "E=org.freedesktop.DBus.Error.AccessDenied", "REFUSED")


def only_policy_difference(a, b):
    """is the difference between two per-operation observations a difference in policy decisions: some delivery of the probe
    or some AccessDenied error is on one side only, and nothing unexplained (X=...) is involved?"""
    sa, sb = set(a.split(",")), set(b.split(","))
    diff = [d.split(":", 1)[1] for d in (sa ^ sb) - {"."} if ":" in d]
    return any(d in POLICY_TAGS for d in diff) and not any(d.startswith("X=") for d in diff)


def check_e2e(rep, known, scns, info, stats):
    exe = info["daemon"]
    lines = [pe.to_line(s) for s in scns]
    model, mcr = vlib.run_lines(info["model_policy"], lines, shards=min(vlib.NPROC, max(1, len(lines) // 50)))
    for line, err in mcr:
        rep.violation("extracted bus model failed on a scenario: %s" % err[-300:], {"line": line, "names": "model driver"}, found_input=False)
    pe.noinotify_shim()       # build the LD_PRELOAD shim once, before the workers fork
    nproc = max(1, min(vlib.NPROC, 8, len(scns)))
    ctx = multiprocessing.get_context("fork")
    with ctx.Pool(nproc) as pool:
        impl = pool.map(_run_scn, [(exe, s) for s in scns], chunksize=1)
    # the machine may be heavily loaded (time-outs of the barrier, connection refused while the daemon starts): an
    # infrastructure failure is retried once, serially, before it is reported
    for k, r in enumerate(impl):
        if r[0] == "exc" or (r[0] == "ok" and "X=barrier-lost" in r[1]):
            stats["retried"] = stats.get("retried", 0) + 1
            impl[k] = _run_scn((exe, scns[k]))
    nops, nontriv = 0, set()
    for scn, line, m, r in zip(scns, lines, model, impl):
        replay = {"scenario": scn, "config": pe.to_xml(scn)}
        if r[0] == "crash" and "handle_reload_watch" in r[1] and "assertion failed" in r[1] and "C06-R1" in known and any(op[0] == "H" for op in scn["ops"]):
            rep.known(known["C06-R1"], {"config": pe.to_xml(scn)[:400], "stderr": r[1][-300:]})
            stats["known"]["C06-R1"] = stats["known"].get("C06-R1", 0) + 1
            continue
        if r[0] == "crash":
            rep.violation("dbus-daemon crashed / sanitizer report on a generated policy scenario: %s" % r[1][-700:], dict(replay, stderr=r[1]))
            continue
        if r[0] == "exc":
            rep.violation("scenario could not be run against the daemon: %s" % r[1][-700:], dict(replay, names="e2e runner"), found_input=False)
            continue
        if m == "!CRASH" or m.startswith("?"):
            rep.violation("model could not evaluate the scenario: %s" % m[:200], dict(replay, names="model driver"), found_input=False)
            continue
        got = r[1]
        parts = m.split(" ## ")
        mm, f3m, doc, d4 = parts if len(parts) == 4 else (m, m, m, "D4=0")
        if "FAULT" in mm:
            rep.violation("generated scenario is outside the model (%s)" % mm[-40:], dict(replay, names="generator"), found_input=False)
            continue
        stats["e2e_scn"] += 1
        if got == "CFGERR" or mm == "CFGERR":
            stats["cfgerr"] += 1 if got == mm else 0
            nops += 1
            if got != mm:
                if got == "CFGERR":
                    rep.violation("the daemon refuses a configuration that the modelled append_rule_from_element accepts: %s" % r[2][-300:],
                                  dict(replay, names="correspondence config parser vs Policy.rule_from_element"), found_input=False)
                else:
                    rep.violation("the daemon accepts a configuration that append_rule_from_element should refuse (model: error)", dict(replay))
            continue
        g, w, dd, f3w = got.split(" | "), mm.split(" | "), doc.split(" | "), f3m.split(" | ")
        nops += len(g)
        for j, (a, b) in enumerate(zip(g, w)):
            if any(t.split(":", 1)[1] in POLICY_TAGS for t in a.split(",") if ":" in t):
                nontriv.add((line, j))
            if "REFUSED" in a: stats["refused"] = stats.get("refused", 0) + 1
            if j < len(scn["ops"]) and scn["ops"][j][0] == "M" and scn["ops"][j][2].get("member") == "ReloadConfig":
                stats["reload_ok" if a.endswith(":R") or ":R," in a else "reload_other"] = stats.get("reload_ok" if a.endswith(":R") or ":R," in a else "reload_other", 0) + 1
        if g != w:
            j = next((j for j, (a, b) in enumerate(zip(g, w)) if a != b), min(len(g), len(w)))
            a = g[j] if j < len(g) else "(nothing)"
            b = w[j] if j < len(w) else "(nothing)"
            op = scn["ops"][j] if j < len(scn["ops"]) else None
            if j < len(g) and j < len(w) and only_policy_difference(a, b):
                rep.violation("policy decision differs from the documented evaluation at operation %d %s: the daemon delivered [%s], the proven-equal model of the manual page says [%s]" % (j, json.dumps(op), a[:300], b[:300]),
                              dict(replay, op_index=j, observed=a, expected=b))
            else:
                rep.violation("end-to-end observation differs at operation %d %s: daemon [%s] model [%s]" % (j, json.dumps(op), a[:300], b[:300]),
                              dict(replay, op_index=j, observed=a, expected=b, names="correspondence dbus-daemon vs Policy.PolicyBus.step"), found_input=False)
            continue
        if d4 == "D4=1":
            # code = model, but under the literal reading of ignore_missing some tree of this scenario means something else
            # (an existing file swallowed because of a file-not-found error from further down)
            if "C06-D4" in known:
                rep.known(known["C06-D4"], {"config": pe.to_xml(scn)[:700]})
                stats["known"]["C06-D4"] = stats["known"].get("C06-D4", 0) + 1
            else:
                rep.violation("a configuration tree is read differently from the literal manual page (ignore_missing swallows an existing file)", dict(replay))
        if w != dd:
            # code = model, but the unpruned (documented) rule list would have decided differently: the optimiser finding
            j = next((j for j, (a, b) in enumerate(zip(w, dd)) if a != b), 0)
            if "F3" in known and f3w == w:
                rep.known(known["F3"], {"config": pe.to_xml(scn)[:600], "op": scn["ops"][j] if j < len(scn["ops"]) else None, "daemon": w[j], "documented": dd[j] if j < len(dd) else None})
                stats["known"]["F3-e2e"] = stats["known"].get("F3-e2e", 0) + 1
            else:
                rep.violation("the daemon (and the model of bus_client_policy_optimize) decides operation %d differently from the unpruned rule list: [%s] vs [%s]" % (j, w[j][:200], dd[j][:200] if j < len(dd) else ""),
                              dict(replay, op_index=j))
        # a method call to somebody that earned its sender nothing at all: the error reply was eaten by the sender's own receive rules
        for j, (a, op) in enumerate(zip(w, scn["ops"])):
            if a == "." and op[0] == "M" and op[2]["type"] == 1 and op[2].get("dest") is not None:
                if "C06-E1" in known:
                    rep.known(known["C06-E1"], {"config": pe.to_xml(scn)[:500], "op": op})
                    stats["known"]["C06-E1"] = stats["known"].get("C06-E1", 0) + 1
                else:
                    rep.violation("a method call earned its sender neither delivery nor an error reply (operation %d %s)" % (j, json.dumps(op)), dict(replay, op_index=j))
                break
    return nops, len(nontriv)


# --------------------------------------------------------------------------- corpus / replay
def load_corpus():
    out = []
    for p in sorted(glob.glob(os.path.join(vlib.VERIF, "corpus", "C06", "*.json"))):
        try:
            out.append((os.path.basename(p), json.load(open(p))))
        except Exception:
            pass
    return out


def run(ctx):
    rep, tier, info = ctx["rep"], ctx["tier"], ctx["info"]
    rnd = random.Random(ctx["seed"])
    known = load_known()
    stats = {"dec": 0, "e2e_scn": 0, "cfgerr": 0, "known": {}}
    dec_cases, scns = [], []
    if ctx.get("replay"):
        rp = json.load(open(ctx["replay"]))
        rp = rp.get("replay", rp)
        if "scenario" in rp:
            scns = [rp["scenario"]]
        elif "line" in rp:
            dec_lines = [rp["line"]]
            impl, _ = vlib.run_lines(info["policy_h"], dec_lines)
            model, _ = vlib.run_lines(info["model_policy"], dec_lines)
            print("replay: implementation: %s\nreplay: model+spec:     %s" % (impl[0], model[0]))
        corpus = []
    else:
        corpus = load_corpus()
    for name, c in corpus:
        if "scenario" in c:
            scns.append(c["scenario"])
        if "dec" in c:
            dec_cases.append((c["dec"]["rules"], c["dec"]["query"]))
    ncorpus = len(scns) + len(dec_cases)
    if not ctx.get("replay"):
        dec_cases += gen_dec_cases(tier, rnd)
        nscn = 160 if tier == "quick" else 6000
        for _ in range(nscn):
            scns.append(pe.gen_scenario(rnd, quick=(tier == "quick")))
    # dedupe decision cases
    seen, uniq = set(), []
    for rs, q in dec_cases:
        l = dec_line(rs, q)
        if l not in seen:
            seen.add(l)
            uniq.append((rs, q))
    dec_cases = uniq
    ndec, ndec_nt = check_dec(rep, known, dec_cases, info, stats) if dec_cases else (0, 0)
    trees = []
    if not ctx.get("replay"):
        trees = [c["tree"] for _, c in corpus if "tree" in c] + [gen_cfg_tree(rnd) for _ in range(1500 if tier == "quick" else 60000)]
    elif "tree" in rp:
        trees = [rp["tree"]]
    ncfg, ncfg_nt = check_cfg(rep, known, trees, info, stats) if trees else (0, 0)
    ndec, ndec_nt = ndec + ncfg, ndec_nt + ncfg_nt
    nops, ne2e_nt = check_e2e(rep, known, scns, info, stats) if scns else (0, 0)
    if ctx.get("replay") and scns:
        line = pe.to_line(scns[0])
        m, _ = vlib.run_one(info["model_policy"], line)
        r = _run_scn((info["daemon"], scns[0]))
        print("replay: configuration:\n%s" % pe.to_xml(scns[0]))
        for j, op in enumerate(scns[0]["ops"]):
            g = r[1].split(" | ") if r[0] == "ok" else [r[1]]
            w = m.split(" ## ")[0].split(" | ")
            d = m.split(" ## ")[-1].split(" | ")
            print("replay: op %d %s\n   daemon     %s\n   model      %s\n   documented %s" % (j, json.dumps(op), g[j] if j < len(g) else "-", w[j] if j < len(w) else "-", d[j] if j < len(d) else "-"))
    # the optimiser condition regenerated from the C source vs the corrected one (informational: with the corrected
    # condition no F3 hit can occur, and C06_optimize_sound_if_condition_ok applies)
    optok, _ = vlib.run_one(info["model_policy"], "optok")
    stats["optimizer_condition_ok"] = optok
    samples = []
    for rs, q in dec_cases[:: max(1, len(dec_cases) // 6)][:6]:
        samples.append({"decision_case": dec_line(rs, q)[:300]})
    for s in scns[:: max(1, len(scns) // 4)][:4]:
        samples.append({"scenario_config": pe.to_xml(s)[:400], "ops": len(s["ops"])})
    rep.coverage.update({
        "evaluations": ndec + nops, "distinct_nontrivial": ndec_nt + ne2e_nt,
        "rule": "decision level: every rule of a reduced alphabet (verdict x type x name x broadcast x min_fds x requested_reply x eavesdrop; own: name/prefix) alone "
                "and followed by every unrestricted rule of its kind, on a fixed message grid, plus random lists of 1-6 rules over all attributes with queries aimed "
                "at one of the rules; non-trivial = some decision is 'allow' or pruning changed a decision.  end to end: generated configuration files (all context kinds, "
                "1-6 <policy> elements, invalid attribute combinations at a low rate) with 3-4 clients of different uid/group sets, match rules, name requests (queues) and "
                "8-24 probe messages; one comparison per operation, non-trivial = the probe was delivered to somebody or AccessDenied was returned",
        "samples": samples,
        "input_distribution": {"decision_cases": ndec - ncfg, "configuration_trees": ncfg, "e2e_scenarios": stats["e2e_scn"], "e2e_operations": nops, "config_errors_agreed": stats["cfgerr"], "infrastructure_retries": stats.get("retried", 0), "connections_refused": stats.get("refused", 0),
                               "reloads_done": stats.get("reload_ok", 0), "reloads_refused_or_failed": stats.get("reload_other", 0),
                               "scenarios_with_includes": sum(1 for s in scns if any(it[0] != "P" for it in s.get("files", []))), "optimizer_condition_ok": stats.get("optimizer_condition_ok"),
                               "corpus": ncorpus, "known_finding_hits": stats["known"]},
        "traces_validated_against_impl": ndec + nops, "disagreements_checked": len(rep.violations), "exhaustive": False,
        "explanation": "theorems: the model of bus/policy.c equals the manual-page semantics (last matching rule, context order, every attribute) for all rule lists, "
                       "messages and registries, up to three named deviations; the optimiser is sound exactly under the corrected condition; denied messages are not "
                       "delivered in the bus model.  correspondence: implementation = model on the generated cases at decision level and end to end.",
    })
    rep.assumptions = [
        "SELinux / AppArmor mediation absent; the daemon runs as root; queue, name-count and pending-reply limits are not reached",
        "end to end every configuration ends with two mandatory control rules (GetId to the bus driver may be sent, method returns from the bus driver may be received) needed by the ordering barrier; the decision-level leg has no such restriction",
        "decision-level leg takes the receiver == NULL / sender == NULL paths (header comparison); registry look-ups (queued owners, prefixes) are exercised end to end",
        "RequestName with flags 0 only; min_fds/max_fds text -> integer (strtol) is not modelled; user=/group= connection rules are not part of this property",
    ]
