"""C09 — only the addressee of a pending call can answer it, once (restrictive, system-bus-like policy)."""
import os, random, sys
import vlib
sys.path.insert(0, os.path.join(vlib.VERIF, "harness", "py"))
import routing_check as rc
import routing_gen as rg
import routing_expire as rx
import routing_batch as rb

MLS = ("routing",)
HARNESSES = (("routing_h", []),)
THEOREMS = ["C09_ledger", "C09_only_addressee", "C09_only_addressee_any_state", "C09_refused", "C09_at_most_one",
            "C09_no_reply_exactly_once_disconnect", "C09_no_reply_exactly_once_timeout", "C09_no_reply_only_for_open_calls",
            "C09_no_slot_for_no_reply_flag", "C09_refused_call_leaves_no_slot", "C09_limit", "C09_limit_refuses",
            "C09_no_reply_refuted",
            "C09_expiry_walk", "C09_expiry_not_early", "C09_expiry_when_due", "C09_expiry_timer_interval", "C09_expiry_timer_armed",
            "C09_expiry_at_most_once", "C09_expiry_removed_never_expires", "C09_check_timeout_due", "C09_check_timeout_not_early",
            "C09_check_timeout_clock_backward", "C09_expiry_test_agrees",
            "C09_hangup_changes_nothing", "C09_call_to_hung_up_callee",
            "C09_unknown_type_changes_nothing", "C09_refused_leaves_table"]

NONTRIVIAL = {"reply-delivered", "reply-refused", "noreply-disconnect", "noreply-timeout", "limit-refused", "duplicate-serial-refused",
              "fd-refused", "call-or-signal-with-rserial-delivered"}


def gen_cases(tier, rnd):
    cases = [c for c in rg.scenarios() if c[1][0] == 1]
    cases += rc.load_corpus("C09")
    n_plain, n_timed = (450, 10) if tier == "quick" else (30000, 2000)
    enum = rg.enum_cases(3 if tier == "quick" else 4, 1, 2)
    if tier == "quick":                      # every 5th 3-event sequence, offset chosen by the seed
        enum = enum[rnd.randrange(5)::5]
    cases += enum
    for i in range(n_plain):
        cfg = (1, rnd.choice((1, 2, 2, 3, 3, 4, 50)), -1)
        cases.append(("gen%d" % i, cfg, rg.gen_history(rnd, cfg, "c09", rnd.randint(6, 18))))
    for i in range(40 if tier == "quick" else 1500):          # stalled recipients: queue at the bus over max_outgoing_bytes
        cfg = (1, rnd.choice((2, 3, 50)), -1, 30000)
        cases.append(("queue%d" % i, cfg, rg.gen_history(rnd, cfg, "c09", rnd.randint(7, 16))))
    for i in range(n_timed):
        cfg = (1, rnd.choice((2, 3, 50)), rg.TIMEOUT)
        cases.append(("timed%d" % i, cfg, rg.gen_history(rnd, cfg, "c09", rnd.randint(5, 11))))
    return cases


def run(ctx):
    rep, tier = ctx["rep"], ctx["tier"]
    if ctx.get("replay"):
        import json
        r = json.load(open(ctx["replay"]))["replay"]
        if "Z" in r.get("events", []):           # a frozen-batch history (harness/py/routing_batch.py)
            rep.coverage.update({"evaluations": 1, "distinct_nontrivial": 1, "frozen_batches": rb.run_batch_check(ctx, "C09", 1, only=(r["cfg"], r["events"]))})
            return
        if "line" in r:                          # an expiry-machinery case (harness/py/routing_expire.py)
            rep.coverage.update({"evaluations": 1, "distinct_nontrivial": 1, "expiry_machinery": rx.run_expire_check(ctx, "C09", 0, only=r["line"])})
            return
    rnd = random.Random(ctx["seed"])
    cases = gen_cases(tier, rnd)
    r = rc.run_check(ctx, "C09", cases, rc.C09_CODES, NONTRIVIAL,
                     "correspondence harness/py/routing_impl.py (dbus-daemon, restrictive policy) vs Routing.step (extracted)")
    cases = r["cases"]
    xcov = rx.run_expire_check(ctx, "C09", 4000 if tier == "quick" else 200000)
    bcov = rb.run_batch_check(ctx, "C09", 60 if tier == "quick" else 1500)
    samples = []
    for i in range(0, len(cases), max(1, len(cases) // 10)):
        if r["itoks"][i] is not None:
            samples.append({"cfg": list(cases[i][1]), "events": " ".join(cases[i][2]), "impl": " ".join(r["itoks"][i]), "model": " ".join(r["mtoks"][i])})
    rep.coverage.update({
        "evaluations": len(cases), "distinct_nontrivial": len(r["nontrivial"]),
        "rule": "histories of 5-18 events over up to 4 live raw clients under the requested-replies-only policy: calls (serials mostly from {1,2,3} "
                "to force reuse, NO_REPLY_EXPECTED 15%%, unix fds 18%% of fd-capable senders), genuine / duplicate / wrong-serial / third-party / "
                "to-third-party replies, calls and signals carrying a REPLY_SERIAL, disconnects biased to parties of outstanding calls, RequestName/"
                "ReleaseName, recipients that stop reading until their queue at the bus exceeds max_outgoing_bytes=30000 (calls, replies and signals "
                "to them bounce with LimitsExceeded; later they drain and reply), max_replies_per_connection in {0,1,2,3,4,50}, reply_timeout infinite or %d ms with ticks of %d/%d ms; plus %d "
                "hand-written boundary scenarios and every 5th (seed-chosen offset; thorough: every) sequence of 3 (thorough: 4) events over a 12-event alphabet (calls, genuine / forged / "
                "misdirected / wrong-serial replies, disconnects) after three connects.  non-trivial = at least one step whose outcome is a delivered or refused reply, a NoReply, a limit "
                "or duplicate-serial refusal; distinct = distinct (configuration, event list)" % (rg.TIMEOUT, rg.TICK_PART, rg.TICK_FULL, len([c for c in rg.scenarios() if c[1][0] == 1])),
        "samples": samples[:10], "input_distribution": r["dist"], "traces_validated_against_impl": len(cases) - r["tainted"],
        "steps_compared": r["steps"], "recipients_stalled_until_queue_full": r["stalls"], "disagreements_checked": r["disagreements"], "timing_unusable": r["tainted"],
        "illformed_histories": r["illformed"], "exhaustive": False, "expiry_machinery": xcov, "frozen_batches": bcov,
        "explanation": "theorems: for every history the model's pending-reply table equals the ledger of open calls read off the observable trace "
                       "(on histories without fds / reply-serial-carrying calls), hence only-addressee, at-most-once, NoReply-exactly-once, no slot for "
                       "NO_REPLY, limit; correspondence: real dbus-daemon = model step by step on every generated history; the trace oracle "
                       "(Spec.RoutingSpec.oracle_step, extracted) is evaluated on the daemon's observed behaviour for every history",
    })
    rep.assumptions = [
        "model coq/Routing/Routing.v is hand-written after bus/dispatch.c, bus/bus.c, bus/connection.c, bus/expirelist.c, bus/services.c; tied to the code by the correspondence run only",
        "policy evaluation itself (rule matching) is C06's subject; here the two generated <policy> texts are modelled by can_send/can_receive",
        "every event is fully processed before the next one is written (round-trip barriers); concurrent writers are not explored",
        "time: non-tick steps are assumed to take no time; histories whose non-tick steps took more than a quarter of reply_timeout are re-run, then skipped",
        "out-of-memory paths (transaction cancel hooks), monitors (BecomeMonitor drops slots), outgoing-queue limits, SELinux/AppArmor are outside the model",
    ]
