"""C18 — a monitor sees everything that matches and can affect nothing."""
import glob, json, os, random, sys
import vlib
sys.path.insert(0, os.path.join(vlib.VERIF, "harness", "py"))
import monitor_check as mc
import monitor_gen as mg

MLS = ("monitor",)
HARNESSES = ()
THEOREMS = ["C18_sees_once", "C18_resumed_no_copy", "C18_filter_semantics", "C18_index_exact", "C18_lookup_counts", "C18_sees_once_refuted", "C18_never_addressee",
            "C18_never_addressee_refuted", "C18_nothing_routed_from_monitor", "C18_nothing_routed_from_monitor_refuted",
            "C18_never_addressee_routed_refuted", "C18_send_closes", "C18_send_closes_refuted", "C18_owns_nothing", "C18_loses_rules",
            "C18_no_pending_replies", "C18_switch_refused", "C18_switch_exact", "C18_switch_signals", "C18_switch_effect",
            "C18_transparent", "C18_transparent_refuted", "C18_erasable", "C18_once_total", "C18_once_total_refuted"]

KNOWN_CLASS = {"unseen-local": "F18b", "monitor-not-closed-local": "F18a", "switch-duplicate": "F18c", "rule-collected": "F18d", "held-call-noreply": "F18e", "held-from-monitor": "F18e"}


def load_known():
    known = {k["id"]: k for k in vlib.load_known("C18")}
    p = ""      # only the committed known-findings.json is consulted at run time
    if os.path.exists(p):
        for e in json.load(open(p)):
            if e.get("property") == "C18" and e.get("status") == "known":
                known.setdefault(e["id"], e)
    return known


def load_corpus():
    cases = []
    for p in sorted(glob.glob(os.path.join(vlib.VERIF, "corpus", "C18", "*.json"))):
        for e in json.load(open(p)):
            cases.append((e.get("name", os.path.basename(p)), list(e["events"])))
    return cases


def gen_cases(tier, rnd):
    cases = list(mg.scenarios()) + load_corpus()
    n = 2500 if tier == "quick" else 40000
    for i in range(n):
        cases.append(("gen%d" % i, mg.gen_history(rnd, rnd.randint(6, 22))))
    return cases


def classify(events, mtoks):
    """outcome classes of one history, read off the model's trace (for coverage)"""
    cl = set()
    mons = set()
    for e, t in zip(events, mtoks):
        ms = mc.model_step(t)
        if ms is None:
            continue
        per, closed, kinds = ms
        f = e.split(".")
        if closed:
            cl.add("monitor-closed-for-sending")
        if f[0] == "B" and int(f[1]) not in mons and not closed:
            ack = any(x.startswith("r/d/") and x.split("/")[6] == f[2] for x in per.get(int(f[1]), []))
            if not ack:
                err = [x.split("/")[7] for x in per.get(int(f[1]), []) if x.startswith("e/d/") and x.split("/")[6] == f[2]]
                cl.add("switch-refused-" + {"1": "unprivileged", "7": "flags-or-signature", "8": "bad-rule"}.get(err[0] if err else "?", "other"))
                continue
            mons.add(int(f[1]))
            cl.add("switch")
            if any("/1/8/" in x for x in per.get(int(f[1]), [])):
                n = sum(1 for x in per.get(int(f[1]), []) if "/1/8/" in x)
                cl.add("switch-owning-%s" % ("unique-only" if n == 1 else "names"))
            if any(x.startswith("e/d/") and "/4/" in x for k in per for x in per[k]):
                cl.add("switch-with-calls-outstanding")
            if len(mons) > 1:
                cl.add("switch-with-other-monitor")
            if f[3] != "-":
                cl.add("selective-filter")
        if f[0] == "S" and f[3] in ("n4", "n5") and t.count("+") == t.count(":C:") - 1 and ":D:" not in t and ":C:" in t:
            cl.add("held-for-activation")
        if f[0] == "R" and f[3] in ("4", "5") and any(x.startswith("c/u") or x.startswith("s/u") for k in per for x, kd in zip(per[k], kinds[k]) if kd == "D"):
            cl.add("held-released")
            if any(x.split("/")[1] in ("u%d" % m for m in mons) for k in per for x, kd in zip(per[k], kinds[k]) if kd == "D"):
                cl.add("held-released-from-monitor")
        for k in per:
            for x, kd in zip(per[k], kinds[k]):
                if kd == "C":
                    p = x.split("/")
                    cl.add("copy-" + {"c": "call", "r": "reply", "e": "error", "s": "signal"}.get(p[0], "undefined-type") + ("-from-bus" if p[1] == "d" else ""))
                    if p[0] == "e" and p[7] == "1":
                        cl.add("copy-refusal")
                    if p[0] == "e" and p[7] in ("2", "3"):
                        cl.add("copy-undeliverable")
                if kd == "L":
                    cl.add("answered-by-libdbus")
        mons -= closed
        if f[0] == "D":
            mons.discard(int(f[1]))
    return cl


def run(ctx):
    rep, tier, info = ctx["rep"], ctx["tier"], ctx["info"]
    rnd = random.Random(ctx["seed"])
    known = load_known()
    if ctx.get("replay"):
        r = json.load(open(ctx["replay"]))["replay"]
        cases = [(r.get("name") or "replay", list(r["events"]))]
    else:
        cases = gen_cases(tier, rnd)
    seen, uniq = set(), []
    for c in cases:
        if tuple(c[1]) not in seen:
            seen.add(tuple(c[1]))
            uniq.append(c)
    cases = uniq
    histA = [c[1] for c in cases]
    histB = [mg.paired(h) for h in histA]
    model_exe = info["model_monitor"]
    mA, crA = mc.run_model(model_exe, histA)
    mB, crB = mc.run_model(model_exe, histB)
    for line, err in crA + crB:
        rep.violation("extracted model failed on `%s`: %s" % (line[:300], err[-300:]), {"input": line, "names": "model driver"}, found_input=False)
    impl, bad = mc.run_impl(info["daemon"], histA + histB)
    for rc, err, hists in bad:
        rep.violation("dbus-daemon ended with status %s / sanitizer or assertion output while replaying %d histories: %s" % (rc, len(hists), err[-700:]),
                      {"histories": [" ".join(h) for h in hists], "stderr": err})
    n = len(cases)
    dist, nontrivial, steps_total, disagreements, illformed, validated, paired_compared = {}, set(), 0, 0, 0, 0, 0
    samples = []
    for i, (name, ev) in enumerate(cases):
        replay = {"events": ev, "name": name, "how": "python3 tools/check.py C18 --replay <this file>  (or: echo 'hist <events>' | build/ml/monitor/model)"}
        ok_all = True
        results = []
        for tag, hist, mt, ir in (("A", ev, mA[i], impl[i]), ("B", histB[i], mB[i], impl[n + i])):
            if ir is None or ir[0] is None:
                notes = ir[1] if ir else {}
                if notes.get("daemon_alive") is False or "Sanitizer" in notes.get("stderr", ""):
                    rep.violation("dbus-daemon died while replaying a history: %s" % notes.get("stderr", "")[-600:], dict(replay, run=tag, events=hist, stderr=notes.get("stderr")))
                else:
                    rep.violation("harness could not replay a history: %s" % notes.get("exception"),
                                  dict(replay, run=tag, events=hist, names="harness/py/monitor_impl.py", notes=notes), found_input=False)
                ok_all = False
                results.append(None)
                continue
            res = ir[0]
            if not mt or mt[0].startswith("?") or len(mt) != len(hist) + 1:
                ok_all = False
                results.append(None)
                continue
            ms = [mc.model_step_str(mc.model_step(t)) for t in mt[:-1]]
            its = [mc.impl_step_str(s, c) for s, c in zip(res["steps"], res["closed"])]
            mfinal = mc.model_final(mt[-1])
            flags = mc.oracle(hist, res)
            unknown = [fl for fl in flags if KNOWN_CLASS.get(fl["cls"]) not in known]
            for fl in flags:
                fid = KNOWN_CLASS.get(fl["cls"])
                if fid in known:
                    rep.known(known[fid], {"events": " ".join(hist[:fl["step"] + 1]), "step": fl["step"], "observed": fl["what"][:160]})
            if res["intact_bad"]:
                rep.violation("a copy or delivery differs from the message as sent (other than SENDER): %s" % (res["intact_bad"][:1],),
                              dict(replay, run=tag, events=hist))
            same = (ms == its) and (mfinal == res["final"])
            steps_total += len(hist)
            illformed += ms.count("!")
            if same:
                validated += 1
            if not same:
                disagreements += 1
                k = next((j for j in range(len(hist)) if ms[j] != its[j]), len(hist))
                what_m = ms[k] if k < len(hist) else mfinal
                what_i = its[k] if k < len(hist) else res["final"]
                if unknown:
                    fl = unknown[0]
                    rep.violation("run %s step %d `%s`: %s (model and implementation differ at step %d: implementation `%s`, model `%s`)"
                                  % (tag, fl["step"], hist[min(fl["step"], len(hist) - 1)], fl["what"], k, what_i[:300], what_m[:300]),
                                  dict(replay, run=tag, events=hist, impl=its, model=ms, flags=flags, step=fl["step"]))
                else:
                    rep.violation("run %s: implementation and model differ at step %d `%s`: implementation `%s`, model `%s`; the C18 oracle accepts the implementation's behaviour"
                                  % (tag, k, hist[k] if k < len(hist) else "(final ownership)", what_i[:400], what_m[:400]),
                                  dict(replay, run=tag, events=hist, impl=its, model=ms, step=k, names="correspondence harness/py/monitor_impl.py (dbus-daemon) vs Monitor.step (extracted)"),
                                  found_input=False)
            elif unknown:
                fl = unknown[0]
                rep.violation("run %s: model and implementation agree but break the specification at step %d `%s`: %s"
                              % (tag, fl["step"], hist[min(fl["step"], len(hist) - 1)], fl["what"]), dict(replay, run=tag, events=hist, impl=its, flags=flags, step=fl["step"]))
            results.append(res)
        if results[0] is not None and results[1] is not None:
            paired_compared += 1
            diffs = mc.compare_paired(ev, results[0], histB[i], results[1])
            for d in diffs:
                if KNOWN_CLASS.get(d["cls"]) in known:
                    rep.known(known[KNOWN_CLASS[d["cls"]]], {"events": " ".join(ev[:d["step"] + 1]), "step": d["step"],
                                                             "observed": "connection %d read %s, without the monitor %s" % (d["conn"], d["with_monitor"], d["without"])})
            diffs = [d for d in diffs if KNOWN_CLASS.get(d["cls"]) not in known]
            if diffs:
                d = diffs[0]
                rep.violation("an ordinary client observes something different with a monitor present than with that connection simply gone: step %d `%s` connection %d read %s, "
                              "without the monitor %s" % (d["step"], ev[d["step"]], d["conn"], d["with_monitor"], d["without"]),
                              dict(replay, events_without_monitor=histB[i], diffs=diffs[:5], step=d["step"]))
        if mA[i] and not mA[i][0].startswith("?"):
            cl = classify(ev, mA[i][:-1])
            for c in cl:
                dist[c] = dist.get(c, 0) + 1
            if "switch" in cl and any(c.startswith("copy-") for c in cl):
                nontrivial.add(tuple(ev))
            if len(samples) < 10 and i % max(1, n // 10) == 0 and results[0] is not None:
                samples.append({"events": " ".join(ev), "model": " ".join(mA[i][:6]) + " ..."})
    rep.coverage.update({
        "evaluations": 2 * n, "distinct_nontrivial": len(nontrivial),
        "rule": "histories of 6-22 events after 2-4 connects over up to 7 raw clients: broadcast and unicast signals, messages with an undefined type byte (5, 9, 255), method calls to unique / well-known / "
                "ownerless names, to the driver and without destination, genuine and bogus replies and errors, interfaces refused by <deny send_interface> / "
                "<deny receive_interface>, org.freedesktop.DBus.Peer, RequestName (queueing, DO_NOT_QUEUE) / ReleaseName, AddMatch, GetId, connects, "
                "disconnects; connections under an unprivileged uid; messages to names with a service file (held for activation, released by a later "
                "RequestName, refused on hold or on release, sender gone or turned monitor meanwhile); BecomeMonitor refused for lack of privilege, a flag, a "
                "wrong signature or an unparsable rule at any position; 0-3 BecomeMonitor calls at random points (biased to connections that own or wait for names or are party to an open call) with an "
                "empty array or 1-3 selective rules over type / sender / destination / interface / member; monitors occasionally send; plus %d hand-written "
                "boundary scenarios; every history is replayed twice (with the switch / with a disconnect in its place).  non-trivial = a switch happened and "
                "some monitor received a copy; distinct = distinct event lists" % len(mg.scenarios()),
        "samples": samples, "input_distribution": dist, "traces_validated_against_impl": validated, "steps_compared": steps_total,
        "disagreements_checked": disagreements, "illformed_events": illformed, "paired_runs_compared": paired_compared, "exhaustive": False,
        "explanation": "PROVED (Coq, all histories of the model): every item the bus produces while x is a monitor reaches x exactly once iff some rule of its "
                       "filter accepts it (declarative rule semantics, registry at capture time) and bears the true sender; such items are never delivered to or "
                       "matched for x; any event by a monitor closes it without any other effect; monitors own no names, have no ordinary rules and are in no pending "
                       "reply; the switch leaves exactly the requested rules; the run where x becomes a monitor and the run where x disconnects deliver the same lists to "
                       "every ordinary connection at every later step and permuted lists at the switch step (monitors are erasable).  Each of the first three clauses "
                       "holds except for messages libdbus consumes on the bus's side of the socket (no DESTINATION and interface Peer or not a signal): full statements "
                       "kept and refuted by witnesses that this check replays on the daemon (F18a, F18b); F18c (duplicate during the switch) likewise.  EXPLORED ONLY "
                       "(correspondence run, not proved): that dbus-daemon behaves like the model - per step, per connection, the exact sequence of messages read from "
                       "every socket (monitors included), EOF, final ownership - on the generated histories; byte-for-byte intactness of copies; sanitizer-clean runs; "
                       "independent oracles on the daemon's behaviour (copies per monitor of every message the harness knows was processed, EOF for a monitor that "
                       "sends, no monitor in any owner queue, ordinary clients' reads equal between the paired runs).  Not covered: OOM/cancel paths, limits, fds, "
                       "activation, LSM checks, the privilege test of BecomeMonitor, concurrency between writers, match keys path/arg*",
    })
    rep.assumptions = [
        "model coq/Monitor/Monitor.v is hand-written after bus/connection.c, bus/driver.c, bus/dispatch.c, bus/signals.c, bus/services.c; tied to the code by the correspondence run only",
        "every event is fully processed before the next one is written (round-trip barriers); concurrent writers are not explored",
        "ordinary match rules never eavesdrop (AddMatch eavesdrop='true' is outside the model); match-rule keys modelled: type, sender, destination, interface, member; the rule pools of the matchmaker are sub-lists of one insertion-ordered list",
        "RequestName flags 0 and DO_NOT_QUEUE only; the caller is privileged (uid 0 = bus owner), so BecomeMonitor is never refused; no service activation files",
        "out-of-memory paths, max_replies_per_connection / outgoing-queue limits, unix fds, containers, SELinux/AppArmor are outside the model",
    ]
