"""C12 — header edits keep a message valid and touch nothing else."""
import os, random, re, sys
import vlib
sys.path.insert(0, os.path.join(vlib.VERIF, "tools"))
import wiregen

HARNESSES = ("wire_h",)
MLS = ("wire", "hdrbytes")
THEOREMS = []
if os.path.exists(os.path.join(vlib.COQ, "Props", "C12.v")):
    THEOREMS = re.findall(r"^Theorem\s+(C12_[A-Za-z0-9_]+)", open(os.path.join(vlib.COQ, "Props", "C12.v")).read(), re.M)

KINDS = ["path", "iface", "member", "err", "dest", "sender", "ci"]
LENS = list(range(0, 41)) + [255]


def rand_op(rnd):
    r = rnd.random()
    if r < 0.08:
        return "strip=1"
    if r < 0.16:
        return "rs=%d" % rnd.choice((1, 2, 255, 256, 2 ** 32 - 1))
    k = rnd.choice(KINDS)
    if r < 0.36:
        return k + "=~"
    if k in ("dest", "sender") and rnd.random() < 0.3:
        v = ":1." + "9" * rnd.choice((1, 2, 5, 13))
    else:
        v = wiregen.name_of_len(rnd.choice(LENS), k)
        if k == "member":
            v = v[:255]
    return "%s=%s" % (k, v.encode().hex())


def run(ctx):
    rep, tier, info = ctx["rep"], ctx["tier"], ctx["info"]
    rnd = random.Random(ctx["seed"])
    n = 1200 if tier == "quick" else 40000
    lines = []
    meta = {"big_endian": 0, "with_unknown_fields": 0, "ops": {}}
    from rawbus import Msg, Variant
    for _ in range(n):
        m = wiregen.rand_message(rnd, max_depth=rnd.choice((0, 1, 2)))
        if m.mtype not in (1, 2, 3, 4):
            m.mtype = 4
            m.fields.update({1: "/a", 2: "a.b", 3: "S"})
            m.order = None
        if rnd.random() < 0.3:
            # unknown fields interleaved with known ones
            t = wiregen.rand_sct(rnd, 1)
            m.extra.append((rnd.choice((11, 50, 255)), Variant(t, wiregen.rand_value(rnd, t))))
        b = wiregen.encode(m)
        if m.extra and rnd.random() < 0.5:
            # move an unknown field to the front: re-encode with extras first
            m2 = Msg(m.mtype, m.flags, m.serial, {}, m.sig, m.body, le=m.le)
            m2.extra = list(m.extra) + [(c, Variant(__import__("rawbus").FIELD_SIG[c], m.fields[c])) for c in (getattr(m, "order", None) or sorted(m.fields)) if c in m.fields]
            if m.sig and 8 not in m.fields:
                m2.extra.append((8, Variant("g", m.sig)))
            m2.sig_override = True
            b2 = bytearray()
            # Msg.encode adds field 8 automatically when sig is set; avoid duplicating it
            m2.sig = ""
            hdr = m2.encode()
            import struct
            e = "<" if m.le else ">"
            body = b[wiregen.header_len(b):]
            hb = bytearray(hdr)
            struct.pack_into(e + "I", hb, 4, len(body))
            b = bytes(hb) + body
        if not m.le:
            meta["big_endian"] += 1
        if m.extra:
            meta["with_unknown_fields"] += 1
        ops = [rand_op(rnd) for _ in range(rnd.choice((1, 1, 2, 3, 5, 8, 12)))]
        for o in ops:
            k = o.split("=")[0] + ("~" if o.endswith("=~") else "")
            meta["ops"][k] = meta["ops"].get(k, 0) + 1
        lines.append("edit %s %s" % (b.hex(), " ".join(ops)))
    hb_cov = {}
    if ctx.get("replay"):
        import json
        rp = json.load(open(ctx["replay"]))["replay"]
        if rp.get("leg") in ("hdrbytes", "c12_bytes", "bytes"):
            from props import c12_bytes
            c12_bytes.leg(ctx, rep, rnd, tier, only=rp["input"])
            lines = []
        else:
            lines = [rp["input"]]
    else:
        from props import c12_bytes
        hb_cov = c12_bytes.leg(ctx, rep, rnd, tier)
    impl, icr = vlib.run_lines(info["wire_h"], lines)
    model, _ = vlib.run_lines(info["model"], lines)
    for line, err in icr:
        rep.violation("implementation crashed / asserted during header edits: `%s`: %s" % (line[:300], err[-700:]), {"input": line, "stderr": err})
    check = []   # (line idx, step idx, impl bytes, model bytes)
    nontrivial = set()
    for idx, (l, i, m) in enumerate(zip(lines, impl, model)):
        if i == "!CRASH":
            continue
        if m in ("corrupt", "!CRASH") or m.startswith("?"):
            if i != "corrupt":
                rep.violation("base message accepted by the implementation but not by the specification decoder: %s" % l[:200], {"input": l, "impl": i, "model": m, "names": "generator / spec decoder"}, found_input=False)
            continue
        if i == "corrupt":
            rep.violation("base message rejected by the implementation but valid per the specification: %s" % l[:200], {"input": l, "impl": i, "model": m, "names": "C01 territory: loader"}, found_input=False)
            continue
        si, sm = i.split("|"), m.split("|")
        nontrivial.add(l)
        for k, (a, b) in enumerate(zip(si, sm)):
            if a == "refused":
                rep.violation("header edit refused (out of memory?) at step %d: %s" % (k, l[:300]), {"input": l, "impl": i, "names": "edit refused"}, found_input=False)
                break
            (ga, a), (gb, b) = (a.split("@") if "@" in a else ("", a)), (b.split("@") if "@" in b else ("", b))
            if ga != gb:
                rep.violation("after edit `%s` (step %d) the header getters do not read back the edited message: impl %s want %s ; %s" % (l.split(" ")[2 + k], k, ga, gb, l[:200]),
                              {"input": l, "step": k, "impl_getters": ga, "model_getters": gb})
                break
            if a != b:
                check.append((idx, k, a, b))
                break
    # disagreements: judge the implementation's bytes with the specification decoder
    sres, _ = vlib.run_lines(info["model"], ["spec1 " + a for _, _, a, _ in check] + ["spec1 " + b for _, _, _, b in check])
    def whole(r, hx):
        """spec verdict on the WHOLE byte string: valid and nothing left over"""
        return r if (r.startswith("valid") and int(r.split("total=")[1].split()[0]) * 2 == len(hx)) else "invalid(" + r[:40] + ")"
    for j, (idx, k, a, b) in enumerate(check):
        ra, rb = whole(sres[j], a), whole(sres[len(check) + j], b)
        l = lines[idx]
        op = l.split(" ")[2 + k]
        if rb.startswith("valid") and not ra.startswith("valid"):
            rep.violation("after edit `%s` (step %d) the serialised message is no longer well-formed/valid: %s\n impl bytes %s" % (op, k, l[:300], a[:300]), {"input": l, "step": k, "impl": a, "model": b, "spec_on_impl": ra})
        elif ra.startswith("valid") and rb.startswith("valid") and ra.split("dump=", 1)[1] != rb.split("dump=", 1)[1]:
            rep.violation("after edit `%s` (step %d) the message reads back differently from what was set / other fields changed:\n impl %s\n want %s" % (op, k, ra.split("dump=", 1)[1][:300], rb.split("dump=", 1)[1][:300]),
                          {"input": l, "step": k, "impl": a, "model": b})
        else:
            rep.violation("after edit `%s` (step %d) the bytes differ from the model's re-serialisation (same abstract message): %s" % (op, k, l[:200]),
                          {"input": l, "step": k, "impl": a, "model": b, "names": "correspondence wire_h/edit vs Wire.HeaderEdit.apply_edit + spec_encode_message"}, found_input=False)
    rep.coverage.update({
        "evaluations": len(lines) + hb_cov.get("cases", 0) + hb_cov.get("built", 0), "distinct_nontrivial": len(nontrivial),
        "header_bytes_leg": {k: v for k, v in hb_cov.items() if not isinstance(v, (list, dict)) or len(str(v)) < 600},
        "rule": "random valid messages (either byte order, shuffled field order, unknown fields interleaved or first) x sequences of 1-12 edits: set/replace with values of every "
                "length 0-40 and 255 (crossing every 8-byte padding boundary), delete, reply serial, container instance, strip unknown fields; bytes compared with the model after every step; "
                "non-trivial = base message accepted and at least one edit applied",
        "samples": [l[:200] for l in lines[:4]],
        "input_distribution": meta, "traces_validated_against_impl": len(lines), "disagreements_checked": len(check),
    })
    rep.assumptions = ["edits are applied through the public setters plus _dbus_message_remove_unknown_fields on messages obtained from dbus_message_demarshal",
                       "values are valid names (the setters reject invalid ones as API misuse)"]
