"""C17 — every call awaiting a reply completes exactly once.

Correspondence: scripted single-threaded schedules (send-with-reply, peer
writes, reads, dispatch, timeout firing, cancel, block, steal, peer close,
local close) are run through harness/c/pending_h.c (real DBusConnection against
an in-process peer) and through the extracted Coq state machine
(coq/PendingCall/Pending.v, step1); the canonical traces must be equal.  The
specification oracle below (written from the property text, independent of the
model) is evaluated on the implementation's trace of every case."""
import glob, itertools, json, os, random, re
import vlib

HARNESSES = ("pending_h",)
MLS = ("pending",)
THEOREMS = ["C17_at_most_once", "C17_pairing", "C17_serials", "C17_serial_sequence", "C17_serial_nonzero", "C17_serial_wraps", "C17_serial_tie",
            "C17_cancel_silent_partial", "C17_cancel_silent_refuted", "C17_fault_only_null_link", "C17_no_fault_partial", "C17_no_fault_refuted",
            "C17_close_completes_refuted", "C17_queued_reply_completes_once", "C17_timeout_completes_once", "C17_block_completes_once",
            "C17_elapsed_bounds", "C17_give_up_complete", "C17_give_up_sound_partial", "C17_give_up_exact",
            "C17_timeout_not_early_refuted_rounding", "C17_clock_backward_branch", "C17_monotonic_never_backward", "C17_no_early_timeout", "C17_reply_first",
            "C17_timed_block_is_run", "C17_timed_block_at_most_once", "C17_timeout_lifecycle",
            "C17_no_lost_wakeup", "C17_io_path_exclusive", "C17_handover_completes", "C17_check_before_acquire_refuted"]

MAXCALLS = 6
FAULT_REPLAYS = 12


# --------------------------------------------------------------------------
# scripts
# --------------------------------------------------------------------------
def settle(events):
    """Append the suffix that lets everything that can still complete do so: read, drain, steal all."""
    ns = sum(1 for e in events if e.startswith("S,"))
    nm = sum(1 for e in events if e.startswith("M,")) + sum(e.count(":") // 2 for e in events if e.startswith("BW,") or e.startswith("BT,") or e.startswith("TT,"))
    return list(events) + ["R"] + ["D"] * min(nm + ns + 3, 24) + ["T,%d" % i for i in range(min(ns, 16))]


def serial_after(base, k):
    """the serial a connection whose counter stands at `base` hands out after k more draws"""
    return 1 + (base - 1 + k) % (2 ** 32 - 1)


HIGH_BASES = (2 ** 31 - 1, 2 ** 32 - 2)     # first serials 2^31-1, 2^31, ... / 2^32-2, 2^32-1, 1, 2, ...


def gen_random(rnd, count, maxlen, base=1):
    out = []
    for _ in range(count):
        n = 0
        draws = 0
        tag = 0
        ev = []
        ln = rnd.randint(3, maxlen)
        style = rnd.random()
        while len(ev) < ln:
            r = rnd.random()
            if n == 0 or (r < 0.16 and n < MAXCALLS):
                ms = rnd.choice(("8", "15", "25", "8", "inf"))
                ev.append("S,%s,%d" % (ms, 0 if rnd.random() < 0.25 else 1))
                n += 1; draws += 1
            elif r < 0.20:
                ev.append("P"); draws += 1
            elif r < 0.42:
                tag += 1
                k = rnd.choice("rrrrees")
                if rnd.random() < 0.12:
                    target = "#%d" % rnd.choice((0 if k == "s" else 1, 1, 2, serial_after(base, draws), serial_after(base, draws + 1), 999999, 4294967295,
                                                 2147483648, serial_after(base, 0)))
                else:
                    target = "c%d" % rnd.randrange(n)
                ev.append("M,%s,%s,%d" % (k, target, tag))
                if rnd.random() < 0.15:        # duplicate reply
                    tag += 1
                    ev.append("M,%s,%s,%d" % (rnd.choice("re"), target if target != "#0" else "#1", tag))
            elif r < 0.52: ev.append("R")
            elif r < 0.57: ev.append("W")
            elif r < 0.72: ev.append("D")
            elif r < 0.79: ev.append("F,%d" % rnd.randrange(n))
            elif r < 0.85: ev.append("C,%d" % rnd.randrange(n))
            elif r < 0.91: ev.append("B,%d" % rnd.randrange(n))
            elif r < 0.97: ev.append("T,%d" % rnd.randrange(n))
            elif r < 0.99: ev.append("X" if style < 0.7 else "L")
            else: ev.append("L" if style < 0.7 else "X")
        out.append(ev)
    return out


def gen_bw(rnd, count):
    """Blocking waits during which the peer keeps writing (BW): calls without timeout (or with a long one), unrelated
    traffic (signals, replies to other serials, duplicates) before the matching reply becomes readable."""
    fixed = [["S,inf,1", "BW,0,s:#0:1/r:c0:2"], ["S,inf,1", "M,s,#0,1", "BW,0,r:c0:2"], ["S,inf,0", "M,r,#77,1", "BW,0,e:c0:2"],
             ["S,inf,1", "S,inf,1", "BW,1,r:c0:1/r:c1:2", "D"], ["S,2000,1", "BW,0,s:#0:1/r:c0:2"], ["S,2000,1", "M,s,#0,1", "BW,0,s:#5:2/s:#0:3/e:c0:4"],
             ["S,inf,1", "BW,0,s:#0:1+r:#9:2/s:c0:3"], ["S,inf,1", "M,r,c0,1", "BW,0,r:c0:2/r:c0:3", "R", "D", "D"],
             ["S,inf,1", "S,8,1", "F,1", "BW,0,s:#0:1/r:c0:2", "D"], ["P", "S,inf,1", "P", "BW,0,s:#0:1/s:#0:2/r:c0:3"],
             ["S,inf,1", "C,0", "BW,0,s:#0:1/r:c0:2"], ["S,inf,1", "BW,0,r:c0:1", "BW,0,r:c0:2", "R", "D"], ["S,inf,1", "X", "BW,0,r:c0:1"],
             ["S,inf,1", "S,inf,1", "BW,0,r:c1:1/s:#0:2/r:c0:3", "BW,1,s:#0:4", "D"]]
    out = [list(x) for x in fixed]
    for _ in range(count):
        n = rnd.randint(1, 3)
        ev = ["S,%s,%d" % (rnd.choice(("inf", "inf", "2000")), rnd.randint(0, 1)) for _ in range(n)]
        tag = 0
        for _ in range(rnd.randint(0, 3)):
            r = rnd.random()
            tag += 1
            if r < 0.35: ev.append("M,%s,%s,%d" % (rnd.choice("sre"), rnd.choice(("#0", "#99", "c%d" % rnd.randrange(n))) if True else "", tag))
            elif r < 0.55: ev.append("R")
            elif r < 0.75: ev.append("D")
            elif r < 0.85: ev.append("P")
            else: ev.append("C,%d" % rnd.randrange(n))
        ev = [e for e in ev if not (e.startswith("M,r,#0") or e.startswith("M,e,#0"))]
        i = rnd.randrange(n)
        batches = []
        for b in range(rnd.randint(0, 2)):      # unrelated traffic first
            items = []
            for _ in range(rnd.randint(1, 2)):
                tag += 1
                others = [j for j in range(n) if j != i]
                tgt = rnd.choice(["#0", "#99"] + ["c%d" % j for j in others])
                items.append("%s:%s:%d" % ("s" if tgt == "#0" else rnd.choice("sre"), tgt, tag))
            batches.append("+".join(items))
        tag += 1
        batches.append("%s:c%d:%d" % (rnd.choice("rrre"), i, tag))
        ev.append("BW,%d,%s" % (i, "/".join(batches)))
        for _ in range(rnd.randint(0, 2)):
            ev.append(rnd.choice(("D", "R", "T,%d" % i, "B,%d" % i)))
        out.append(ev)
    return out


def gen_tt(rnd, count):
    """Two threads blocking on two calls of one connection (TT): thread A sleeps in poll() owning the I/O path, thread B waits
    for the I/O path, the peer answers both calls (any order, any kind, with unrelated traffic and duplicates) in one write."""
    out = []
    for _ in range(count):
        n = rnd.randint(2, 4)
        ev = ["S,inf,%d" % rnd.randint(0, 1) for _ in range(n)]
        tag = 0
        pre = False
        for _ in range(rnd.randint(0, 3)):
            r = rnd.random(); tag += 1
            if r < 0.4: ev.append("M,s,%s,%d" % (rnd.choice(("#0", "#99")), tag)); pre = True
            elif r < 0.6: ev.append("P")
            elif r < 0.8: ev.append("D")
            else: ev.append("R")
        if pre: ev.append("R")
        a, b = rnd.sample(range(n), 2)
        items = []
        for c in (a, b):
            tag += 1
            items.append("%s:c%d:%d" % (rnd.choice("rrres"), c, tag))
        for _ in range(rnd.randint(0, 2)):
            tag += 1
            others = [j for j in range(n) if j not in (a, b)]
            items.append(rnd.choice(["s:#0:%d" % tag, "r:#99:%d" % tag] + ["r:c%d:%d" % (j, tag) for j in others] + ["e:c%d:%d" % (rnd.choice((a, b)), tag)]))
        rnd.shuffle(items)
        ev.append("TT,%d,%d,%s" % (a, b, "+".join(items)))
        for _ in range(rnd.randint(0, 2)):
            ev.append(rnd.choice(("D", "R", "T,%d" % a, "T,%d" % b)))
        out.append(ev)
    return out


def norm_clock(us):
    return "%d.%d" % (us // 1000000, us % 1000000)


def gen_bt(rnd, count):
    """dbus_pending_call_block under a scripted clock (BT): readings around every boundary of the elapsed-time arithmetic
    (elapsed = timeout - 1 / timeout, microsecond borrow with and without a remainder, same reading twice; random scripts are
    monotone, a few fixed ones step backwards to drive the "clock set backward" branch of the code), default / zero / one-millisecond / absent timeouts, replies and unrelated
    traffic arriving in any round, poll timing out, peer or local close before the wait."""
    out = []
    fixed = [
        ["S,5,1", "BT,0,5,10.0/10.2000/10.4999/10.5000,x"], ["S,5,1", "BT,0,5,10.0/10.4999/10.5000,x"], ["S,5,1", "BT,0,5,10.999999/11.4998/11.4999,x"],
        ["S,1,1", "BT,0,1,0.999999/1.500,x"], ["S,1,1", "BT,0,1,0.999999/1.999,x"], ["S,1,1", "BT,0,1,0.0/0.999/0.1000,x"],
        ["S,0,1", "BT,0,0,7.5/7.5,x"], ["S,0,1", "M,r,c0,1", "BT,0,0,7.5/7.5,x"], ["S,0,1", "BT,0,0,7.5/7.4,r:c0:1"],
        ["S,-1,1", "BT,0,-1,1.0/10.0/25.999999/26.0,-/-"], ["S,-1,0", "BT,0,-1,1.0/25.999999/26.0,s:#0:1/-"], ["S,-1,1", "BT,0,-1,1.0/26.1,r:c0:1"],
        ["S,50,1", "BT,0,50,9.0/8.999999,x"], ["S,50,1", "BT,0,50,9.500000/9.400000/9.549999/9.550000,-/-"], ["S,50,1", "BT,0,50,9.0/8.0/9.0,r:c0:1"],
        ["S,inf,1", "BT,0,inf,5.0/6.0/7.0,s:#0:1/r:c0:2"], ["S,inf,1", "BT,0,inf,5.0/4.0/3.0,s:#0:1/s:#0:2/r:c0:3"], ["S,inf,1", "M,s,#0,1", "BT,0,inf,5.0/5.1,e:c0:2"],
        ["S,100,1", "BT,0,100,5.0/5.30000/5.60000,s:#0:1/-/r:c0:2"], ["S,100,1", "S,100,1", "BT,1,100,5.0/5.30000/5.99999/5.100000,r:c0:1/-"],
        ["S,50,1", "X", "BT,0,50,9.0/9.1/9.2,x"], ["S,50,1", "L", "BT,0,50,9.0/9.1,x"], ["S,50,1", "S,8,1", "X", "S,50,1", "BT,2,50,9.0/9.1/9.2,x", "D", "D"],
        ["S,50,1", "M,r,c0,1", "X", "BT,0,50,9.0/9.1,x"], ["S,50,1", "S,50,1", "M,r,c0,1", "X", "BT,1,50,9.0/9.1/9.2,x", "D", "D"],
        ["S,50,1", "F,0", "BT,0,50,9.0/9.1,x"], ["S,50,1", "C,0", "BT,0,50,9.0/9.049/9.050,x"], ["S,50,1", "F,0", "C,0", "D", "BT,0,50,9.0/9.1,x"],
        ["S,50,1", "BT,0,50,9.0/9.1,x", "BT,0,50,9.0/9.1,x", "D"],
        # the reply and the end of the stream in ONE read versus two reads: same completion
        ["S,inf,1", "BT,0,inf,5.0/6.0,r:c0:1+x", "D", "D"], ["S,inf,1", "BT,0,inf,5.0/6.0/7.0,r:c0:1/x", "D", "D"],
        ["S,50,1", "BT,0,50,5.0/5.01/5.02,e:c0:1+x", "D"], ["S,50,1", "BT,0,50,5.0/5.01/5.02,e:c0:1/x", "D"],
        ["S,50,1", "S,inf,1", "BT,1,inf,5.0/6.0/7.0,r:c0:1+x", "D", "D", "D"], ["S,50,1", "S,inf,1", "BT,1,inf,5.0/6.0/7.0,r:c0:1/x", "D", "D", "D"],
        ["S,50,1", "S,inf,1", "BT,1,inf,5.0/6.0/7.0,s:#0:3/r:c0:1+r:c1:2+x", "D", "D", "D"], ["S,inf,1", "M,r,c0,1", "X", "BT,0,inf,5.0/6.0,x"],
        ["S,inf,1", "S,inf,1", "M,r,c0,1", "X", "BT,1,inf,5.0/6.0/7.0,x", "D", "D"], ["S,8,1", "S,inf,0", "BW,1,r:c1:1+x", "D", "D"], ["S,50,1", "M,r,#9,1", "BT,0,50,9.0/9.010000/9.2,r:c0:5", "D"]]
    out += [list(x) for x in fixed]
    for _ in range(count):
        n = rnd.randint(1, 3)
        args = [rnd.choice(("0", "1", "5", "100", "-1", "inf", "inf", "1000")) for _ in range(n)]
        ev = ["S,%s,%d" % (a, rnd.randint(0, 1)) for a in args]
        tag = 0
        for _ in range(rnd.randint(0, 3)):
            r = rnd.random(); tag += 1
            if r < 0.4: ev.append("M,%s,%s,%d" % (rnd.choice("sre"), rnd.choice(("#99", "c%d" % rnd.randrange(n))), tag))
            elif r < 0.55: ev.append("R")
            elif r < 0.7: ev.append("D")
            elif r < 0.78: ev.append("F,%d" % rnd.randrange(n))
            elif r < 0.86: ev.append("C,%d" % rnd.randrange(n))
            elif r < 0.93: ev.append("X")
            else: ev.append("P")
        i = rnd.randrange(n)
        ms = {"-1": 25000, "inf": None}.get(args[i], None if args[i] == "inf" else int(args[i]) if args[i] not in ("-1", "inf") else None)
        if args[i] == "-1": ms = 25000
        t = rnd.choice((0, 999999, 1500000, 12345678, 999000))
        clocks = [t]
        for _ in range(rnd.randint(1, 5)):
            base_ms = ms if ms is not None else 1000
            d = rnd.choice((0, 1, 999, 1000, 1001, base_ms * 1000 - 1001, base_ms * 1000 - 1000, base_ms * 1000 - 1, base_ms * 1000, base_ms * 1000 + 1,
                            base_ms * 500, 3000000))
            t = max(t, clocks[0] + d) if rnd.random() < 0.6 else t + d          # CLOCK_MONOTONIC never goes down
            clocks.append(t)
        arr = []
        for _ in range(rnd.randint(0, 3)):
            r = rnd.random(); tag += 1
            if r < 0.3 and ms is not None: arr.append("-")
            elif r < 0.6: arr.append("%s:%s:%d" % (rnd.choice("sre"), rnd.choice(["#99"] + ["c%d" % j for j in range(n) if j != i] + ["#7"]), tag))
            else: arr.append("%s:c%d:%d" % (rnd.choice("rre"), i, tag))
        if arr and arr[-1] != "-" and rnd.random() < 0.25:      # the peer closes: in the same write as the last batch, or in a write of its own
            arr[-1] = arr[-1] + "+x" if rnd.random() < 0.5 else arr[-1]
            if not arr[-1].endswith("+x"): arr.append("x")
        ev.append("BT,%d,%s,%s,%s" % (i, args[i], "/".join(norm_clock(c) for c in clocks), "/".join(arr) if arr else "x"))
        for _ in range(rnd.randint(0, 2)):
            ev.append(rnd.choice(("D", "R", "T,%d" % i)))
        out.append(ev)
    return out


EXH_PREFIX = ["S,12,1"]
EXH_ALPHA = ["M,r,c0,1", "M,e,c0,2", "R", "W", "D", "F,0", "C,0", "B,0", "T,0", "X", "L", "S,12,0", "M,r,c1,3", "B,1"]


def gen_exhaustive(depth):
    out = []
    for d in range(0, depth + 1):
        for t in itertools.product(EXH_ALPHA, repeat=d):
            out.append(EXH_PREFIX + list(t))
    return out


def gen_boundary():
    """Hand-picked orders around each case split of the model / proofs."""
    B = []
    for k in ("r", "e", "s"):
        B += [["S,8,1", "M,%s,c0,1" % k, "R", "D"], ["S,8,1", "M,%s,c0,1" % k, "B,0"], ["S,8,1", "M,%s,c0,1" % k, "W", "F,0", "D"],
              ["S,8,1", "F,0", "M,%s,c0,1" % k, "R", "D", "D"], ["S,8,1", "M,%s,c0,1" % k, "M,%s,c0,2" % k, "R", "D", "D"],
              ["S,8,1", "C,0", "M,%s,c0,1" % k, "R", "D"], ["S,8,1", "M,%s,c0,1" % k, "R", "C,0", "D"],
              ["S,8,1", "M,%s,c0,1" % k, "R", "D", "C,0", "T,0"]]
    # replies in every order for three calls, one duplicated, one absent
    for p in itertools.permutations(range(3)):
        B.append(["S,8,1", "S,15,1", "S,inf,1"] + ["M,r,c%d,%d" % (i, i + 1) for i in p] + ["R", "D", "D", "D"])
        B.append(["S,8,1", "S,15,1", "S,inf,0"] + ["M,r,c%d,%d" % (i, i + 1) for i in p[:2]] + ["M,e,c%d,9" % p[0], "W", "D", "D", "D", "F,%d" % p[2]])
        B.append(["S,8,1", "S,15,1", "S,25,1"] + ["M,r,c%d,%d" % (i, i + 1) for i in p] + ["B,%d" % p[2], "B,%d" % p[0], "D", "D"])
    # serial bookkeeping: plain sends between calls, replies to serials not (yet) in use
    B += [["P", "S,8,1", "P", "P", "S,8,1", "M,r,c1,1", "M,r,c0,2", "R", "D", "D"],
          ["S,8,1", "M,r,#2,5", "R", "S,8,1", "D"], ["S,8,1", "M,s,#0,5", "R", "D"], ["S,8,1", "M,r,#4294967295,5", "R", "D"],
          ["S,8,1", "M,r,#2,5", "M,r,c0,6", "B,0", "S,8,1", "B,1"]]
    # disconnects at every stage
    for close in ("X", "L"):
        rd = ["R"] if close == "X" else []
        B += [["S,8,1", close] + rd + ["D", "D", "D"], ["S,8,1", close, "B,0"], ["S,8,1", "S,inf,1", close, "B,1", "B,0"],
              ["S,8,1", "M,r,c0,1", close, "B,0"], ["S,8,1", "S,8,1", "M,r,c0,1", close, "B,1", "D", "D", "D"],
              ["S,8,1", "F,0", close] + rd + ["D", "D", "D"], ["S,8,1", close] + rd + ["C,0", "D", "D"],
              ["S,8,1", close, "W", "D", "B,0"], ["S,8,1", close, "S,8,1", "P", "B,0"], ["S,8,1", close, "P", "S,8,1", "R", "D", "D"],
              ["S,8,1", close] + rd + ["S,8,1", "P", "D", "D", "D"], ["S,inf,1", "M,r,c0,1", close, "W", "D", "D", "D"]]
    # cancel / block / fire interplay (the refuted classes)
    B += [["S,8,1", "C,0", "B,0"], ["S,8,1", "C,0", "M,r,c0,1", "B,0"], ["S,8,1", "F,0", "C,0", "B,0"], ["S,8,1", "F,0", "C,0", "D", "B,0"],
          ["S,8,1", "B,0", "C,0", "B,0"], ["S,8,1", "F,0", "B,0"], ["S,8,1", "F,0", "F,0", "D", "D"], ["S,inf,1", "F,0", "M,r,c0,1", "B,0"],
          ["S,8,0", "M,r,c0,1", "R", "D", "T,0", "T,0"], ["S,8,1", "S,8,1", "F,1", "F,0", "D", "D"], ["S,8,1", "S,15,1", "M,r,c1,1", "B,0", "D"]]
    return B


# --------------------------------------------------------------------------
# trace parsing and the specification oracle
# --------------------------------------------------------------------------
OBS_RE = re.compile(r"A\[|\]B\[|\]|TT-|q(-?\d+)|i(-|\d+)|n(\d+)|f(N|Z|X\d+|[res]\d+\.\d+)|d([012])|t(-|0|N\d+|X\d+|[res]\d+\.\d+)|s(-|\d+)|p(\d+)|(w-?)|(F-?)|(!\w+)")


def parse_trace(line):
    segs = []
    for seg in line.split(";"):
        if "|" not in seg:
            return None
        o, s = seg.split("|", 1)
        disc = s.endswith("/d")
        if disc:
            s = s[:-2]
        calls = [(c[0] == "1", c[1] == "1", int(c[2:])) for c in s.split(",")] if s else []
        obs = []
        pos = 0
        while pos < len(o):
            m = OBS_RE.match(o, pos)
            if not m:
                return None
            obs.append(m.group(0))
            pos = m.end()
        segs.append((obs, calls, disc))
    return segs


def oracle(events, line):
    """Evaluate the property text on one observed trace.  Returns a list of (class, text); class is
    'strand' (closed connection, call never completed), 'cancel-block' (cancelled call completed by a block),
    or 'violation'."""
    events = [e for e in events if not (e.startswith("base=") or e.startswith("realbase="))]
    segs = parse_trace(line)
    if segs is None or len(segs) != len(events):
        return [("violation", "unparseable trace")]
    bad = []
    calls = []          # dict(serial, notify, cancelled, completed, ncount, stolen)
    serials = []
    peer_open = True
    connected = True
    local_close = any(e == "L" for e in events)
    sent = {}           # tag -> (kind, rs)
    tag_used = {}
    for idx, (ev, (obs, st, disc)) in enumerate(zip(events, segs)):
        f = ev.split(",")
        for o in obs:
            if o.startswith("!sleep"):
                bad.append(("violation", "two threads blocking on one connection (event %d): a thread went to sleep in poll() although the reply "
                            "to its call had already been read into the incoming queue by the other thread (lost wake-up at the I/O-path "
                            "hand-over); without further traffic its call would never complete" % idx))
            elif o.startswith("!walltime"):
                bad.append(("violation", "the blocking wait at event %d read the wall clock (gettimeofday) instead of CLOCK_MONOTONIC: "
                            "a step of the system time would end or prolong the wait (regression of fix 09f2f87)" % idx))
            elif o.startswith("!"):
                bad.append(("violation", "harness flagged %s at event %d" % (o, idx)))
        if f[0] == "S":
            o = [x for x in obs if x.startswith("s")]
            if o and o[0] != "s-":
                s = int(o[0][1:])
                if s == 0 or s in serials:
                    bad.append(("violation", "serial %d is zero or was used before" % s))
                serials.append(s)
                calls.append({"serial": s, "notify": f[2] == "1", "cancelled": False, "completed": False, "ncount": 0, "stolen": False,
                              "fired": False, "delivered": False, "ms": f[1], "expect_peer": False})
        elif f[0] == "P":
            o = [x for x in obs if x.startswith("p")]
            if o:
                s = int(o[0][1:])
                if s == 0 or s in serials:
                    bad.append(("violation", "serial %d is zero or was used before" % s))
                serials.append(s)
        elif f[0] == "M":
            rs = None
            if f[2][0] == "c":
                i = int(f[2][1:])
                if i < len(calls):
                    rs = calls[i]["serial"]
            else:
                rs = int(f[2][1:])
            if rs is not None and peer_open and connected and not (rs == 0 and f[1] != "s"):
                sent[int(f[3])] = (f[1], rs)
                for c in calls:
                    if c["serial"] == rs and not c["completed"] and not c["cancelled"]:
                        c["delivered"] = True
                        if not c["fired"]:
                            c["written"] = "%s%d.%s" % (f[1], rs, f[3])     # written by the peer while both ends were open
        elif f[0] in ("BW", "BT", "TT"):
            bi = int(f[1])
            spec = f[2] if f[0] == "BW" else f[4] if f[0] == "BT" else f[3]
            if f[0] == "BT" and bi < len(calls) and not calls[bi]["completed"]:
                # has the timeout really expired at some reading of the scripted clock?
                rd = [int(a) * 1000000 + int(b) for a, b in (x.split(".") for x in f[3].split("/"))]
                ms = {"-1": 25000, "inf": None}.get(f[2], None)
                if f[2] not in ("-1", "inf"):
                    ms = int(f[2])
                # a script whose readings go down is not a reachable input (CLOCK_MONOTONIC); it only exercises the
                # "clock set backward" branch of the code, and is not judged
                mono = all(a <= b for a, b in zip(rd, rd[1:]))
                calls[bi]["bt_expired"] = (not mono) or (ms is not None and any(r - rd[0] >= ms * 1000 for r in rd[1:]))
                calls[bi]["bt"] = True
            if peer_open and connected and spec != "x":
                hit = False
                closed_after_hit = False
                for item in [x for x in spec.replace("/", "+").split("+") if x != "-"]:
                    if item == "x":
                        if hit:
                            closed_after_hit = True
                        peer_open = False
                        break
                    k, tgt, tg = item.split(":")
                    rs = None
                    if tgt[0] == "c":
                        if int(tgt[1:]) < len(calls):
                            rs = calls[int(tgt[1:])]["serial"]
                    else:
                        rs = int(tgt[1:])
                    if rs is None or (rs == 0 and k != "s"):
                        continue
                    sent[int(tg)] = (k, rs)
                    for c in calls:
                        if c["serial"] == rs and not c["completed"] and not c["cancelled"]:
                            c["delivered"] = True
                    if bi < len(calls) and rs == calls[bi]["serial"]:
                        hit = True
                # the waited-for reply does arrive (and if the peer closes, it closes after having written it, so the reply is
                # read before the connection can learn of the disconnect); no timeout can have expired:
                # the wait must end with a message from the peer, never with a locally made error
                if hit and bi < len(calls) and (not disc or closed_after_hit):
                    c = calls[bi]
                    if not c["completed"] and not c["cancelled"] and not c["fired"] and (c["ms"] in ("inf", "2000") if f[0] == "BW" else c["ms"] == "inf"):
                        c["expect_peer"] = True
        elif f[0] == "X":
            peer_open = False
        elif f[0] == "F":
            if "F" in obs and int(f[1]) < len(calls):
                calls[int(f[1])]["fired"] = True
        # a message from the peer that carries the serial of a call which is still waiting (exists, not completed, not
        # cancelled) must complete that call: it must never be handed on to the filters
        for o in obs:
            mf = re.match(r"f([res])(\d+)\.(\d+)$", o)
            if mf:
                for ci, c in enumerate(calls):
                    if c["serial"] == int(mf.group(2)) and not c["completed"] and not c["cancelled"] and not (f[0] == "S" and ci == len(calls) - 1):
                        c["lost_reply"] = o[1:]
                        bad.append(("violation", "the peer's message %s carries the serial of call %d, which was still waiting for its reply "
                                    "(not completed, not cancelled), yet event %d (%s) handed it to the filters instead of completing the call%s" % (
                                        o[1:], ci, idx, ev, "; the connection had already closed" if disc else "")))
        if len(st) != len(calls):
            bad.append(("violation", "call count mismatch at event %d" % idx))
            return bad
        # notifications and completion flags
        for i, (comp, treg, nc) in enumerate(st):
            c = calls[i]
            if c["completed"] and not comp:
                bad.append(("violation", "call %d went from completed back to not completed at event %d" % (i, idx)))
            if nc > 1:
                bad.append(("violation", "call %d notified %d times (event %d)" % (i, nc, idx)))
            if nc > 0 and not c["notify"]:
                bad.append(("violation", "call %d notified without a notify function" % i))
            if nc > 0 and not comp:
                bad.append(("violation", "call %d notified but not completed" % i))
            if comp and c["notify"] and nc != 1:
                bad.append(("violation", "call %d completed but notify count is %d (event %d)" % (i, nc, idx)))
            if comp and not c["completed"] and c["cancelled"]:
                cls = "cancel-block" if (f[0] in ("B", "BW", "BT") and int(f[1]) == i) or (f[0] == "TT" and i in (int(f[1]), int(f[2]))) else "violation"
                bad.append((cls, "call %d was cancelled before it completed, yet event %d (%s) completed%s it" % (
                    i, idx, ev, " and notified" if nc else "")))
            if comp and treg:
                bad.append(("violation", "call %d is completed but its timeout is still registered" % i))
            c["completed"], c["ncount"] = comp, nc
        for o in obs:
            if o[0] == "n":
                i = int(o[1:])
                if i >= len(calls) or not calls[i]["completed"]:
                    bad.append(("violation", "notify for call %s which is not completed" % o[1:]))
        if f[0] == "C" and int(f[1]) < len(calls) and not calls[int(f[1])]["completed"]:
            calls[int(f[1])]["cancelled"] = True
        if f[0] == "T" and int(f[1]) < len(calls):
            c = calls[int(f[1])]
            o = [x for x in obs if x.startswith("t")]
            got = o[0][1:] if o else "-"
            if got == "-":
                if c["completed"]:
                    bad.append(("violation", "steal on completed call %s returned nothing" % f[1]))
            elif got == "0":
                if not c["stolen"]:
                    bad.append(("violation", "call %s is completed but holds no reply" % f[1]))
            else:
                if c["stolen"]:
                    bad.append(("violation", "call %s handed out a second reply %s" % (f[1], got)))
                c["stolen"] = True
                if got[0] == "N" and c.get("bt") and not c.get("bt_expired") and not c["fired"] and not c["cancelled"] and c.get("bt_conn"):
                    bad.append(("early-timeout", "call %s (timeout %s) was completed by a blocking wait with the timeout error although at no reading "
                                "of the clock had its timeout expired" % (f[1], c["ms"])))
                if got[0] in "NX" and c.get("written") and not c["fired"] and not c["cancelled"] and not local_close:
                    bad.append(("violation", "call %s (serial %d) completed with the locally generated error %s although the peer had written its reply %s "
                                "before it closed: the connection read that reply before it could learn of the disconnect (no timeout fired, "
                                "not cancelled, no local close)" % (f[1], c["serial"], got, c["written"])))
                if got[0] in "NX" and c.get("lost_reply"):
                    bad.append(("violation", "call %s completed with the local error %s although its reply %s had been read by the connection "
                                "(and was handed to the filters)" % (f[1], got, c["lost_reply"])))
                if got[0] in "NX":
                    if c["expect_peer"]:
                        bad.append(("violation", "call %s (serial %d, timeout %s) was blocked on and its reply arrived (before any close of the connection), "
                                    "yet it completed with the locally generated error %s" % (f[1], c["serial"], c["ms"], got)))
                    if int(got[1:]) != c["serial"]:
                        bad.append(("violation", "call %s (serial %d) completed with the local error for serial %s" % (f[1], c["serial"], got[1:])))
                else:
                    rs, tg = got[1:].split(".")
                    if int(rs) != c["serial"]:
                        bad.append(("violation", "call %s (serial %d) was paired with a message whose reply serial is %s" % (f[1], c["serial"], rs)))
                    if int(tg) not in sent or sent[int(tg)] != (got[0], int(rs)):
                        bad.append(("violation", "call %s completed with %s which the peer never sent" % (f[1], got)))
                    if int(tg) in tag_used and tag_used[int(tg)] != int(f[1]):
                        bad.append(("violation", "peer message %s completed two different calls" % got))
                    tag_used[int(tg)] = int(f[1])
        if f[0] == "BT" and int(f[1]) < len(calls) and calls[int(f[1])].get("bt") and "bt_conn" not in calls[int(f[1])]:
            calls[int(f[1])]["bt_conn"] = connected and not disc
        connected = not disc
    # liveness, judged after the settle suffix
    for i, c in enumerate(calls):
        if c["cancelled"] or c["completed"]:
            continue
        if c.get("lost_reply"):
            bad.append(("violation", "call %d (serial %d) never completed although its reply %s had been read by the connection" % (i, c["serial"], c["lost_reply"])))
        elif c.get("written") and not c["fired"] and not local_close:
            bad.append(("violation", "call %d (serial %d) never completed although the peer had written its reply %s while both ends were open" % (i, c["serial"], c["written"])))
        elif not connected:
            bad.append(("strand", "call %d (serial %d) was outstanding when the connection closed and never completed" % (i, c["serial"])))
        elif c["fired"]:
            bad.append(("violation", "call %d: its timeout fired but it never completed" % i))
        elif c["delivered"]:
            bad.append(("violation", "call %d: a reply with its serial was delivered but it never completed" % i))
    return bad


CRASH_SIG = re.compile(r"dbus-pending-call\.c:\d+:\d+: runtime error: member access within null pointer|SEGV|AddressSanitizer")


def load_known():
    """known findings come from known-findings.json only; F17.4a may still be filed under its old id F17.4"""
    known = {k["id"]: k for k in vlib.load_known("C17")}
    if "F17.4a" not in known and "F17.4" in known:
        known["F17.4a"] = known["F17.4"]
    return known


def run(ctx):
    rep, tier, info = ctx["rep"], ctx["tier"], ctx["info"]
    rnd = random.Random(ctx["seed"])
    known = load_known()
    exe, model = info["pending_h"], info["model_pending"]

    cases = []
    for p in sorted(glob.glob(os.path.join(vlib.VERIF, "corpus", "C17", "*.json"))):
        for c in json.load(open(p)):
            cases.append(("corpus", c["events"].split()))
    cases += [("boundary", e) for e in gen_boundary()]
    cases += [("blockwhile", e) for e in gen_bw(rnd, 250 if tier == "quick" else 4000)]
    cases += [("twothreads", e) for e in gen_tt(rnd, 150 if tier == "quick" else 3000)]
    cases += [("clock", e) for e in gen_bt(rnd, 3000 if tier == "quick" else 60000)]
    cases += [("exhaustive", e) for e in gen_exhaustive(4 if tier == "quick" else 5)]
    cases += [("random", e) for e in gen_random(rnd, 12000 if tier == "quick" else 300000, 22)]
    # the same families on a connection whose counter stands beyond 2^31 / just before the wrap (harness-kept counter, see pending_h.c)
    fam = [c["events"].split() for p in sorted(glob.glob(os.path.join(vlib.VERIF, "corpus", "C17", "*.json"))) for c in json.load(open(p))]
    fam += gen_boundary() + gen_bw(rnd, 0) + gen_exhaustive(3 if tier == "quick" else 4)
    for b in HIGH_BASES:
        cases += [("base%d" % b, ["base=%d" % b] + e) for e in fam]
        cases += [("base%d" % b, ["base=%d" % b] + e) for e in gen_random(rnd, 1000 if tier == "quick" else 40000, 22, base=b)]
    # ... and with the library's own counter really advanced there (seconds per case: a handful only)
    real = [["S,8,1", "S,8,1", "S,8,0", "M,r,c2,5", "R", "D", "F,1", "D", "M,e,c0,6", "W", "D", "D"],
            ["S,inf,1", "P", "S,8,1", "M,r,c1,1", "M,r,c0,2", "M,s,c0,3", "R", "D", "D", "D", "C,1", "B,0"]]
    for b in ((2 ** 31 - 1,) if tier == "quick" else HIGH_BASES):
        cases += [("realbase%d" % b, ["realbase=%d" % b] + e) for e in real]
    if ctx.get("replay"):
        r = json.load(open(ctx["replay"]))
        cases = [("replay", r["replay"]["events"].split())]
    seen = set(); uniq = []
    for src, ev in cases:
        ev = settle(ev)
        key = " ".join(ev)
        if key not in seen:
            seen.add(key); uniq.append((src, ev))
    cases = uniq
    lines = ["run " + " ".join(ev) for _, ev in cases]

    mout, mcr = vlib.run_lines(model, lines)
    for line, err in mcr:
        rep.violation("extracted model failed on `%s`: %s" % (line[:300], err[-300:]), {"input": line, "names": "model driver"}, found_input=False)
    normal, faults, hangs = [], [], 0
    for k, m in enumerate(mout):
        if "HANG" in m or "FUEL" in m or "EXHAUSTED" in m:
            hangs += 1                      # the schedule blocks for ever on a call with no timeout: not runnable
        elif "FAULT" in m:
            faults.append(k)
        elif m.startswith("?") or m == "!CRASH":
            rep.violation("model driver rejected `%s`: %s" % (lines[k][:200], m), {"input": lines[k], "names": "model driver"}, found_input=False)
        else:
            normal.append(k)

    slow = [k for k in normal if lines[k].startswith("run realbase=")]
    fast = [k for k in normal if not lines[k].startswith("run realbase=")]
    slow_res = {}
    import threading

    def run_slow():
        if slow:
            slow_res["r"] = vlib.run_lines(exe, [lines[k] for k in slow], shards=len(slow))
    th = threading.Thread(target=run_slow)
    th.start()
    fout, icr = vlib.run_lines(exe, [lines[k] for k in fast])
    th.join()
    res = dict(zip(fast, fout))
    if slow:
        res.update(zip(slow, slow_res["r"][0]))
        icr = icr + slow_res["r"][1]
    iout = [res[k] for k in normal]
    crashed = {line: err for line, err in icr}
    dist = {}
    nontrivial = set()
    disagreements = 0
    retried = 0
    samples = []
    for k, i in zip(normal, iout):
        src, ev = cases[k]
        m = mout[k]
        dist[src] = dist.get(src, 0) + 1
        line = lines[k]
        if i == "!CRASH":
            if line in crashed:
                rep.violation("implementation crashed / sanitizer report on schedule `%s`: %s" % (" ".join(ev), crashed[line][-700:]),
                              {"events": " ".join(ev), "stderr": crashed[line][-3000:]})
            continue
        if i != m and any(e.startswith("B") for e in ev):
            # a blocking wait uses the wall clock; rule out a scheduling hiccup before believing the difference
            for _ in range(2):
                i2, cr2 = vlib.run_one(exe, line)
                retried += 1
                if i2 == m:
                    i = i2
                    break
        found = oracle(ev, i)
        if re.search(r"[|,]1\d\d", i):          # some call has its completed flag up
            nontrivial.add(line)
        if len(samples) < 12 and k % max(1, len(cases) // 12) == 0:
            samples.append({"source": src, "events": " ".join(ev), "impl": i, "model": m})
        if i != m:
            disagreements += 1
            viol = [t for c, t in found if c == "violation"]
            if viol:
                rep.violation("schedule `%s`: %s (implementation trace differs from the model's)" % (" ".join(ev), "; ".join(viol[:3])),
                              {"events": " ".join(ev), "impl": i, "model": m})
            else:
                rep.violation("schedule `%s`: implementation trace differs from the model (the property oracle has no complaint about the implementation)" % " ".join(ev),
                              {"events": " ".join(ev), "impl": i, "model": m, "names": "correspondence pending_h vs PendingCall.Pending.step1"}, found_input=False)
            continue
        for cls, text in found:
            fid = {"strand": "F17.1", "cancel-block": "F17.2", "early-timeout": "F17.4a"}.get(cls)
            if fid and fid in known:
                rep.known(known[fid], " ".join(ev))
            else:
                rep.violation("schedule `%s`: %s (code and model agree)" % (" ".join(ev), text), {"events": " ".join(ev), "impl": i, "model": m})

    # schedules on which the model predicts the NULL timeout_link dereference: replay a few, each in its own process
    fault_seen = 0
    for k in faults[:FAULT_REPLAYS]:
        src, ev = cases[k]
        res, cr = vlib.run_one(exe, lines[k], timeout=60)
        dist["fault-replay"] = dist.get("fault-replay", 0) + 1
        if res == "!CRASH" and cr and CRASH_SIG.search(cr[0][1]):
            fault_seen += 1
            if "F17.3" in known:
                rep.known(known["F17.3"], " ".join(ev))
            else:
                rep.violation("schedule `%s` crashes the implementation (NULL timeout_link in _dbus_pending_call_set_reply_unlocked), as the model predicts" % " ".join(ev),
                              {"events": " ".join(ev), "stderr": cr[0][1][-2000:]})
        else:
            disagreements += 1
            rep.violation("schedule `%s`: the model predicts a NULL dereference in _dbus_pending_call_set_reply_unlocked, the implementation answered `%s`" % (" ".join(ev), res[:300]),
                          {"events": " ".join(ev), "impl": res, "model": mout[k], "names": "correspondence pending_h vs PendingCall.Pending (fault class)"}, found_input=False)

    # the serial counter at both ends of its range: table produced by compiling and running the C function (tools/gen/pending.py)
    tie_checked = 0
    tp = os.path.join(vlib.COQ, "Gen", "PendingTables.v")
    if os.path.exists(tp):
        mm = re.search(r"next_serial_samples[^=]*:=\s*\[(.*?)\]\.", open(tp).read(), re.S)
        samples = re.findall(r"\((\d+), \((\d+), (\d+)\)\)", mm.group(1)) if mm else []
        outs, _ = vlib.run_lines(model, ["serial 0 %s" % c0 for c0, _, _ in samples], shards=1)
        for (c0, s_impl, c_impl), mo in zip(samples, outs):
            tie_checked += 1
            c0, s_impl, c_impl = int(c0), int(s_impl), int(c_impl)
            if s_impl == 0 or c_impl == 0:
                rep.violation("_dbus_connection_get_next_client_serial with the counter at %d hands out serial %d and leaves the counter at %d: "
                              "a zero serial is (about to be) assigned" % (c0, s_impl, c_impl),
                              {"function": "_dbus_connection_get_next_client_serial", "counter_before": c0, "serial": s_impl, "counter_after": c_impl,
                               "how": "state reached after %d sends on one connection; function body compiled and run by tools/gen/pending.py" % (c0 - 1)})
            elif mo.split() != [str(s_impl), str(c_impl)]:
                rep.violation("_dbus_connection_get_next_client_serial(counter=%d) = (%d, %d) in C, %s in the model" % (c0, s_impl, c_impl, mo),
                              {"counter_before": c0, "names": "correspondence next_serial (generated table vs model)"}, found_input=False)

    rep.coverage.update({
        "evaluations": len(normal) + min(len(faults), FAULT_REPLAYS),
        "distinct_nontrivial": len(nontrivial),
        "rule": "distinct schedules (after appending the settle suffix) on which the implementation completed at least one call; "
                "non-trivial = some call completed or was notified",
        "samples": samples,
        "input_distribution": dist,
        "traces_validated_against_impl": len(normal),
        "disagreements_checked": disagreements,
        "schedules_blocking_forever_skipped": hangs,
        "schedules_model_predicts_crash": len(faults), "crash_replays_confirmed": fault_seen,
        "timing_retries": retried, "serial_counter_samples_checked": tie_checked,
        "exhaustive": False,
        "explanation": "theorems are about every history of the event model; correspondence: implementation trace = model trace "
                       "(per event: serials, notify callbacks, messages reaching the filter, dispatch status, stolen replies, and after every "
                       "event each call's completed flag, timeout registration and notify count) on all schedules of <= %d events over a "
                       "14-event alphabet after one send, hand-written boundary orders, and random schedules with up to %d calls; "
                       "the property oracle (exactly once, pairing, cancel silence, serials) runs on every implementation trace" % (4 if tier == "quick" else 5, MAXCALLS),
    })
    rep.assumptions = [
        "single-threaded deterministic schedules only; thread interleavings are covered by the theorems about the event model under the assumption "
        "that each modelled event is atomic with respect to the connection lock (the lock discipline itself is not verified)",
        "timeouts are fired by the harness through dbus_timeout_handle; a blocking wait uses the real clock (8-25 ms timeouts), differences on schedules with "
        "a block are re-run twice before they count",
        "counter values beyond 2^31 and across the wrap: most schedules use base=<b>, where the harness keeps the counter (same rule) and presets every "
        "outgoing message's serial with dbus_message_set_serial, so the library's own counter is not what hands the serials out there; a handful of "
        "realbase=<b> schedules advance the real counter with _dbus_connection_get_next_client_serial (2^31 calls) and must give the same traces; "
        "the counter function itself is tied by the generated table (PendingTie.v)",
        "BW schedules (block while the peer keeps writing) use a helper thread in the harness that writes pre-marshalled bytes every 15 ms and makes no "
        "libdbus call; only calls without timeout or with a 2 s timeout are waited for this way",
        "TT schedules really run two threads (after dbus_threads_init_default) but are gated with semaphores through the interposed poll() and "
        "pthread_cond_wait(), so the interleaving is fixed: A asleep in poll, B waiting for the I/O path, one write, A wakes; other interleavings "
        "are covered by the theorems over the thread model only",
        "schedules that would block for ever (block on a call without timeout and without a reply) are not run",
    ]
