"""C20 — object-path handlers are chosen by exact path, then nearest fallback."""
import glob, itertools, json, os, random
import vlib

HARNESSES = ("objtree_h",)
MLS = ("objtree",)
THEOREMS = ["C20_order", "C20_register_occupied_noop", "C20_register_free_succeeds", "C20_children", "C20_tree_invariant",
            "C20_refinement", "C20_error_partial", "C20_error_root_fallback", "C20_error_refuted",
            "C20_children_oracle", "C20_dispatch_oracle", "C20_known_object_oracle"]

# path elements whose strcmp order is easy to get wrong: prefixes of each other,
# '0' < 'A' < 'Z' < '_' < 'a', siblings that sort adjacently
ELEMS = ["a", "a_", "a0", "aa", "b", "A", "ab", "_", "a00", "Z", "z", "b_", "0", "a_a", "B", "ba"]


def pstr(p):
    return "/" + "/".join(p)


def gen_random_history(rnd, mode, big=False):
    """One random history with interleaved observations; returns the op token list."""
    elems = rnd.sample(ELEMS, rnd.choice((2, 3, 4, 6, 9, 12) if big else (2, 3, 4, 6)))
    depth = rnd.choice((1, 2, 3, 4))
    universe = {()}
    wide = rnd.random() < 0.35          # many siblings under one parent: exercises the binary search / memmove
    base = tuple(rnd.choice(elems) for _ in range(rnd.randint(0, 2)))
    for _ in range(rnd.randint(3, 10)):
        if wide:
            universe.add(base + (rnd.choice(elems),))
            if rnd.random() < 0.3:
                universe.add(base + (rnd.choice(elems), rnd.choice(elems)))
        else:
            universe.add(tuple(rnd.choice(elems) for _ in range(rnd.randint(0, depth))))
    for p in sorted(universe):          # shared prefixes (sorted: set order depends on the hash seed)
        if p and rnd.random() < 0.5:
            universe.add(p[:-1])
    universe = sorted(universe)
    registered = {}                     # path -> id
    toks = []
    next_id = 1

    def probes():
        cand = set(universe)
        for p in universe:
            cand.add(p + (rnd.choice(elems),))                      # below
            cand.add(p + ("x", "y"))
            if p:
                cand.add(p[:-1] + (rnd.choice(ELEMS),))             # beside
                cand.add(p[:-1] + (p[-1] + "_",))
                cand.add(p[:-1] + (p[-1][:-1],) if len(p[-1]) > 1 else p[:-1])
        cand.add(("nope",))
        return sorted(cand)

    nmut = rnd.randint(2, 14)
    for _ in range(nmut):
        r = rnd.random()
        if r < 0.42 and next_id < 60:
            p = rnd.choice(universe)
            toks.append("r:%s:%d" % (pstr(p), next_id))
            if p not in registered: registered[p] = next_id
            next_id += 1
        elif r < 0.68 and next_id < 60:
            p = rnd.choice(universe)
            toks.append("f:%s:%d" % (pstr(p), next_id))
            if p not in registered: registered[p] = next_id
            next_id += 1
        else:
            if registered and rnd.random() < 0.85:
                p = rnd.choice(sorted(registered))
            else:
                p = rnd.choice(universe)                              # not registered: caller bug, warned no-op
            toks.append("u:%s" % pstr(p))
            registered.pop(p, None)
        if rnd.random() < 0.6:
            ps = probes()
            for _ in range(rnd.randint(1, 5)):
                p = rnd.choice(ps)
                k = rnd.random()
                if k < 0.55 or not registered:
                    acc = "-"
                elif k < 0.9:
                    chain = [registered[q] for q in registered if p[:len(q)] == q]
                    acc = str(rnd.choice(chain)) if chain and rnd.random() < 0.8 else str(rnd.choice(sorted(registered.values())))
                else:
                    acc = ",".join(str(x) for x in sorted(rnd.sample(sorted(registered.values()), min(2, len(registered)))))
                toks.append("c:%s:%s" % (pstr(p), acc))
            if rnd.random() < 0.7:
                toks.append("l:%s" % pstr(rnd.choice(ps)))
            if mode == "c" and rnd.random() < 0.4:
                toks.append("i:%s" % pstr(rnd.choice(ps)))
    # final sweep
    ps = probes()
    for p in rnd.sample(ps, min(len(ps), 6)):
        toks.append("c:%s:-" % pstr(p))
    for p in rnd.sample(ps, min(len(ps), 3)):
        toks.append("l:%s" % pstr(p))
    toks.append("l:/")
    return toks


def gen_exhaustive(universe, maxlen, probes, lists):
    """All histories of at most maxlen register / register-fallback / unregister ops over the universe,
    each followed by a fixed observation suite."""
    ops = [(k, p) for p in universe for k in "rfu"]
    out = []
    for n in range(0, maxlen + 1):
        for seq in itertools.product(ops, repeat=n):
            toks = []
            for i, (k, p) in enumerate(seq):
                toks.append("%s:%s:%d" % (k, p, i + 1) if k != "u" else "u:%s" % p)
            for p in probes:
                toks.append("c:%s:-" % p)
            for p in probes[:4]:
                toks.append("c:%s:2" % p)
            for p in lists:
                toks.append("l:%s" % p)
            out.append(toks)
    return out


def f12_shape(tok_impl, tok_spec):
    """UnknownMethod sent where the property text demands UnknownObject, same handlers invoked."""
    return (tok_impl.startswith("c=") and tok_spec.startswith("c=") and tok_impl.endswith(":M") and tok_spec.endswith(":O")
            and tok_impl[:-2] == tok_spec[:-2])


def run(ctx):
    rep, tier, info = ctx["rep"], ctx["tier"], ctx["info"]
    rnd = random.Random(ctx["seed"])
    known = {k["id"]: k for k in vlib.load_known("C20")}
    if not known:
        # until the coordinator merges notes/C20.findings.json into known-findings.json
        pf = os.path.join(vlib.VERIF, "notes", "C20.findings.json")
        if os.path.exists(pf):
            known = {k["id"]: k for k in json.load(open(pf)) if k.get("property") == "C20" and k.get("status") == "known"}
    quick = tier == "quick"
    lines = []
    origin = {}
    if ctx.get("replay"):
        r = json.load(open(ctx["replay"]))
        lines = [r["replay"]["line"]] if "replay" in r else r["lines"]
    else:
        for f in sorted(glob.glob(os.path.join(vlib.VERIF, "corpus", "C20", "*.json"))):
            for l in json.load(open(f))["lines"]:
                lines.append(l); origin[l] = "corpus"
        U = ["/", "/a", "/a/b", "/a/b/c", "/aa"] if quick else ["/", "/a", "/a/b", "/a/b/c", "/aa", "/a/a_"]
        probes = ["/", "/a", "/a/b", "/a/b/c", "/a/b/c/d", "/aa", "/a/x", "/zz", "/aa/q", "/a/b/x/y", "/a_", "/a/a_"]
        for toks in gen_exhaustive(U, 3 if quick else 4, probes, ["/", "/a", "/a/b", "/aa", "/zz", "/a/b/c"]):
            l = "t " + " ".join(toks); lines.append(l); origin.setdefault(l, "exhaustive")
        # the same enumeration up to 2 ops through the real connection
        for toks in gen_exhaustive(U, 2, probes, ["/", "/a", "/a/b", "/aa", "/zz", "/a/b/c"]):
            l = "c " + " ".join(toks); lines.append(l); origin.setdefault(l, "exhaustive")
        for _ in range(9000 if quick else 300000):
            l = "t " + " ".join(gen_random_history(rnd, "t", big=rnd.random() < 0.5)); lines.append(l); origin.setdefault(l, "random")
        for _ in range(3000 if quick else 60000):
            l = "c " + " ".join(gen_random_history(rnd, "c", big=rnd.random() < 0.5)); lines.append(l); origin.setdefault(l, "random")
    seen = set(); uniq = []
    for l in lines:
        if l not in seen:
            seen.add(l); uniq.append(l)
    lines = uniq
    model, mcr = vlib.run_lines(info["model_objtree"], lines)
    impl, icr = vlib.run_lines(info["objtree_h"], lines)
    for line, err in icr:
        rep.violation("implementation crashed / sanitizer report on history `%s`: %s" % (line[:300], err[-600:]), {"line": line, "stderr": err})
    for line, err in mcr:
        rep.violation("extracted model failed on `%s`: %s" % (line[:300], err[-300:]), {"line": line, "names": "model driver"}, found_input=False)
    dist = {"c": 0, "t": 0}
    nontrivial = set()
    n_ops = 0
    n_tokens_checked = 0
    samples = []
    outcomes = {"H": 0, "M": 0, "O": 0, "register_ok": 0, "register_refused": 0, "unregister_hit": 0, "unregister_miss": 0,
                "listings_nonempty": 0, "calls_with_2plus_handlers": 0}
    for line, m, i in zip(lines, model, impl):
        if i == "!CRASH" or m == "!CRASH":
            continue
        if m.startswith("!") or m.startswith("?") or " | " not in m:
            rep.violation("model reports %s on `%s`" % (m, line[:300]), {"line": line, "model": m, "names": "model fault / driver"}, found_input=False)
            continue
        dist[line[0]] += 1
        ops = line.split()[1:]
        mt, st = m.split(" | ")
        mt, st, it = mt.split(), st.split(), i.split()
        n_ops += len(ops)
        if any(t.startswith("c=") and not t.startswith("c=-") for t in it):
            nontrivial.add(line)
        if len(samples) < 12 and (len(lines) < 12 or rnd.random() < 12.0 / len(lines)):
            samples.append({"history": line[:400], "impl": i[:400], "model": m[:800]})
        if len(it) != len(ops) or len(mt) != len(ops) or len(st) != len(ops):
            rep.violation("result count mismatch on `%s`: impl %d model %d spec %d ops %d" % (line[:200], len(it), len(mt), len(st), len(ops)),
                          {"line": line, "impl": i, "model": m, "names": "harness/driver protocol"}, found_input=False)
            continue
        for a in it:
            if a[:2] == "c=":
                outcomes[a[-1]] = outcomes.get(a[-1], 0) + 1
                if "," in a: outcomes["calls_with_2plus_handlers"] += 1
            elif a == "1": outcomes["register_ok"] += 1
            elif a == "0": outcomes["register_refused"] += 1
            elif a == "u1": outcomes["unregister_hit"] += 1
            elif a == "u0": outcomes["unregister_miss"] += 1
            elif a[:2] in ("l=", "i=") and not a.endswith("-"): outcomes["listings_nonempty"] += 1
        for idx, (o, a, b, c) in enumerate(zip(ops, it, mt, st)):
            n_tokens_checked += 1
            if a == b == c:
                continue
            prefix = " ".join(ops[:idx + 1])
            rp = {"line": line, "op_index": idx, "op": o, "impl": a, "model": b, "spec": c, "impl_line": i, "model_line": m}
            if a == b:
                # implementation = model, both differ from the specification: must be a known finding
                if f12_shape(a, c) and "F12" in known:
                    rep.known(known["F12"], {"history": prefix[-160:], "impl": a, "spec": c})
                else:
                    rep.violation("after `%s`: code and model answer %s, the specification demands %s" % (prefix[-300:], a, c), rp)
                continue
            # implementation != model: is the implementation's behaviour a violation of the property here?
            if a != c:
                rep.violation("after `%s`: implementation answers %s, specification demands %s (model: %s)" % (prefix[-300:], a, c, b), rp)
            else:
                rp["names"] = "correspondence objtree_h vs ObjTree.ObjTree (%s)" % o.split(":")[0]
                rep.violation("after `%s`: implementation answers %s but the model says %s (specification: %s)" % (prefix[-300:], a, b, c), rp,
                              found_input=False)
            break
    rep.coverage.update({
        "evaluations": len(lines), "operations": n_ops, "distinct_nontrivial": len(nontrivial),
        "rule": "every history of <= %d register/register-fallback/unregister operations over a %d-path universe (internal tree API) and of <= 2 "
                "through a real connection pair, each followed by calls to 12 probe paths (inside, beside, below) and 6 child listings; random histories "
                "(2..14 mutations over generated path sets with shared prefixes, up to 12 adjacently sorting siblings, the root, unregistration in the "
                "middle, declining and accepting handlers) with interleaved calls / list_registered / Introspect; non-trivial = at least one handler "
                "was invoked; distinct = distinct history lines" % (3 if quick else 4, 5 if quick else 6),
        "samples": samples, "input_distribution": dist, "observed_by_implementation": outcomes, "origin": {k: sum(1 for l in lines if origin.get(l) == k) for k in ("corpus", "exhaustive", "random")},
        "traces_validated_against_impl": len(lines), "result_tokens_compared": n_tokens_checked,
        "disagreements_checked": len(rep.violations), "exhaustive": False,
        "explanation": "theorems: for every history the trie model refines the flat registration map (order of handlers, occupied-path "
                       "rejection, child listing, tree invariant; error choice partially, F12); correspondence: implementation = model on every "
                       "generated history, observation by observation; the specification oracle is evaluated on every observation as well",
    })
    rep.assumptions = [
        "coq/ObjTree/ObjTree.v is hand-written after dbus-object-tree.c; tied to the code only by this run",
        "handlers do not register/unregister paths re-entrantly from inside a callback; single thread; no allocation failure",
        "mode t derives M/O from the DBusHandlerResult and *found_object; the error actually sent is observed in mode c only",
        "Peer-interface built-ins are not exercised; the default Introspect reply is, for its child list",
    ]
