"""C20 — object-path handlers are chosen by exact path, then nearest fallback."""
import glob, itertools, json, os, random
import vlib

HARNESSES = ("objtree_h",)
MLS = ("objtree",)
THEOREMS = ["C20_order", "C20_register_occupied_noop", "C20_register_free_succeeds", "C20_children", "C20_tree_invariant",
            "C20_refinement", "C20_error_partial", "C20_error_root_fallback", "C20_error_refuted",
            "C20_children_oracle", "C20_dispatch_oracle", "C20_known_object_oracle",
            "C20_dispatch_refines", "C20_dispatch_strict_partial", "C20_dispatch_strict_refuted", "C20_dispatch_quiet",
            "C20_conn_error_refuted", "C20_pending_first", "C20_peer_builtin", "C20_get_user_data", "C20_free_all_members",
            "C20_free_all_count", "C20_decompose_spec", "C20_decompose_valid_path"]

# path elements whose strcmp order is easy to get wrong: prefixes of each other,
# '0' < 'A' < 'Z' < '_' < 'a', siblings that sort adjacently
ELEMS = ["a", "a_", "a0", "aa", "b", "A", "ab", "_", "a00", "Z", "z", "b_", "0", "a_a", "B", "ba"]


def pstr(p):
    return "/" + "/".join(p)


def gen_random_history(rnd, mode, big=False):
    """One random history with interleaved observations; returns the op token list."""
    elems = rnd.sample(ELEMS, rnd.choice((2, 3, 4, 6, 9, 12) if big else (2, 3, 4, 6)))
    depth = rnd.choice((1, 2, 3, 4))
    universe = {()}
    wide = rnd.random() < 0.35          # many siblings under one parent: exercises the binary search / memmove
    base = tuple(rnd.choice(elems) for _ in range(rnd.randint(0, 2)))
    for _ in range(rnd.randint(3, 10)):
        if wide:
            universe.add(base + (rnd.choice(elems),))
            if rnd.random() < 0.3:
                universe.add(base + (rnd.choice(elems), rnd.choice(elems)))
        else:
            universe.add(tuple(rnd.choice(elems) for _ in range(rnd.randint(0, depth))))
    for p in sorted(universe):          # shared prefixes (sorted: set order depends on the hash seed)
        if p and rnd.random() < 0.5:
            universe.add(p[:-1])
    universe = sorted(universe)
    registered = {}                     # path -> id
    toks = []
    next_id = 1

    def probes():
        cand = set(universe)
        for p in universe:
            cand.add(p + (rnd.choice(elems),))                      # below
            cand.add(p + ("x", "y"))
            if p:
                cand.add(p[:-1] + (rnd.choice(ELEMS),))             # beside
                cand.add(p[:-1] + (p[-1] + "_",))
                cand.add(p[:-1] + (p[-1][:-1],) if len(p[-1]) > 1 else p[:-1])
        cand.add(("nope",))
        return sorted(cand)

    nmut = rnd.randint(2, 14)
    for _ in range(nmut):
        r = rnd.random()
        if r < 0.42 and next_id < 60:
            p = rnd.choice(universe)
            toks.append("r:%s:%d" % (pstr(p), next_id))
            if p not in registered: registered[p] = next_id
            next_id += 1
        elif r < 0.68 and next_id < 60:
            p = rnd.choice(universe)
            toks.append("f:%s:%d" % (pstr(p), next_id))
            if p not in registered: registered[p] = next_id
            next_id += 1
        else:
            if registered and rnd.random() < 0.85:
                p = rnd.choice(sorted(registered))
            else:
                p = rnd.choice(universe)                              # not registered: caller bug, warned no-op
            toks.append("u:%s" % pstr(p))
            registered.pop(p, None)
        if rnd.random() < 0.6:
            ps = probes()
            for _ in range(rnd.randint(1, 5)):
                p = rnd.choice(ps)
                k = rnd.random()
                if k < 0.55 or not registered:
                    acc = "-"
                elif k < 0.9:
                    chain = [registered[q] for q in registered if p[:len(q)] == q]
                    acc = str(rnd.choice(chain)) if chain and rnd.random() < 0.8 else str(rnd.choice(sorted(registered.values())))
                else:
                    acc = ",".join(str(x) for x in sorted(rnd.sample(sorted(registered.values()), min(2, len(registered)))))
                toks.append("c:%s:%s" % (pstr(p), acc))
            if rnd.random() < 0.7:
                toks.append("l:%s" % pstr(rnd.choice(ps)))
            if mode == "c" and rnd.random() < 0.4:
                toks.append("i:%s" % pstr(rnd.choice(ps)))
    # final sweep
    ps = probes()
    for p in rnd.sample(ps, min(len(ps), 6)):
        toks.append("c:%s:-" % pstr(p))
    for p in rnd.sample(ps, min(len(ps), 3)):
        toks.append("l:%s" % pstr(p))
    toks.append("l:/")
    return toks


KINDS = [("cox", 50), ("sox", 8), ("cpp", 3), ("cpg", 3), ("cpx", 3), ("spx", 3), ("spp", 2), ("cii", 5), ("cni", 3), ("coi", 3), ("sii", 2),
         ("ron", 3), ("eon", 3), ("rnn", 2), ("cix", 2), ("cnx", 3), ("rpn", 2)]


def gen_dispatch_history(rnd, tree_level=False):
    """Histories aimed at the whole of dbus_connection_dispatch: filters, Peer / Introspect built-ins, message types,
    NEED_MEMORY re-dispatch, callbacks that register / unregister while a dispatch is running (mode c);
    with tree_level only the g / z observations (mode t)."""
    elems = rnd.sample(ELEMS, rnd.choice((2, 3, 4)))
    universe = {()}
    for _ in range(rnd.randint(3, 8)):
        universe.add(tuple(rnd.choice(elems) for _ in range(rnd.randint(0, 4))))
    for p in sorted(universe):
        for k in range(len(p)):
            if rnd.random() < 0.6: universe.add(p[:k])
    universe = sorted(universe)
    registered, filters, toks = {}, [], []
    next_id = [1]

    def fresh():
        next_id[0] += 1
        return next_id[0] - 1

    def mutate():
        r = rnd.random()
        if r < 0.65 and next_id[0] < 40:
            p = rnd.choice(universe); i = fresh()
            toks.append("%s:%s:%d" % ("f" if rnd.random() < 0.55 else "r", pstr(p), i))
            registered.setdefault(p, i)
        elif registered:
            p = rnd.choice(sorted(registered)); toks.append("u:%s" % pstr(p)); registered.pop(p, None)

    def action(chain_paths):
        k = rnd.random()
        near = chain_paths + [q + (rnd.choice(elems),) for q in chain_paths[:2]]
        p = rnd.choice(near) if near and rnd.random() < 0.75 else rnd.choice(universe)
        if k < 0.12 and chain_paths:
            # swap the registration of a path on the chain for a new one of the other (or same) kind
            p = rnd.choice(chain_paths); i = fresh(); registered[p] = i
            return "u~%s+%s~%s~%d" % (pstr(p), "r" if rnd.random() < 0.6 else "f", pstr(p), i)
        if k < 0.5:
            registered.pop(p, None)
            return "u~%s" % pstr(p)
        i = fresh()
        registered.setdefault(p, i)
        return "%s~%s~%d" % ("f" if k < 0.78 else "r", pstr(p), i)

    for _ in range(rnd.randint(2, 6)): mutate()
    for _ in range(rnd.randint(2, 7)):
        r = rnd.random()
        if r < 0.25: mutate()
        elif r < 0.35 and not tree_level:
            if filters and rnd.random() < 0.3:
                f = rnd.choice(filters); filters.remove(f); toks.append("G:%d" % f)
            elif len(filters) < 4:
                f = 50 + len(filters) + rnd.randint(0, 1) * 4
                if f not in filters: filters.append(f); toks.append("F:%d" % f)
        elif r < 0.45:
            toks.append("g:%s" % pstr(rnd.choice(universe + [universe[-1] + ("x",)])))
        elif r < 0.5 and not tree_level:
            toks.append("p:%s" % (str(rnd.choice(filters)) if filters and rnd.random() < 0.5 else "-"))
        elif not tree_level:
            kind = rnd.choices([k for k, _ in KINDS], [w for _, w in KINDS])[0]
            base = rnd.choice(universe)
            p = base if rnd.random() < 0.6 else base + (rnd.choice(elems),) if rnd.random() < 0.7 else ("nope",)
            if kind[0] in "re" and rnd.random() < 0.4: path = "-"
            elif kind == "rnn": path = "-"
            else: path = pstr(p)
            chain_paths = [q for q in sorted(registered, key=len, reverse=True) if p[:len(q)] == q]
            ids = [registered[q] for q in chain_paths] + filters
            acc = "-"
            if ids and rnd.random() < 0.4: acc = ",".join(str(x) for x in sorted(rnd.sample(ids, rnd.choice((1, 1, 2)) if len(ids) > 1 else 1)))
            oom = "-"
            if ids and rnd.random() < 0.25: oom = ",".join(str(x) for x in sorted(rnd.sample(ids, rnd.choice((1, 1, 2)) if len(ids) > 1 else 1)))
            acts = "-"
            if ids and rnd.random() < 0.5 and next_id[0] < 40:
                groups = []
                for actor in rnd.sample(ids, min(len(ids), rnd.choice((1, 1, 2)))):
                    groups.append("%d=%s" % (actor, "+".join(action(chain_paths) for _ in range(rnd.randint(1, 3)))))
                acts = ";".join(groups)
            toks.append("d:%s:%s:%s:%s:%s" % (path, acc, oom, kind, acts))
            if acts != "-" and rnd.random() < 0.7:
                toks.append("d:%s:-:-:cox:-" % pstr(p))
                toks.append("l:%s" % pstr(rnd.choice(universe)))
    toks.append("l:/")
    if rnd.random() < 0.7: toks.append("z")
    return toks


def gen_reentrant_exhaustive():
    """/a, /a/b fallbacks and /a/b/c registered (with and without a root fallback); a call to /a/b/c during which ONE
    callback performs every sequence of at most two register / register-fallback / unregister operations on these
    three paths; then the same call again, quietly, and the listings."""
    P = ["/a", "/a/b", "/a/b/c"]
    single = ["u~%s" % p for p in P] + ["r~%s~%d" % (p, 10 + i) for i, p in enumerate(P)] + ["f~%s~%d" % (p, 20 + i) for i, p in enumerate(P)]
    seqs = [[a] for a in single] + [[a, b.replace("~1", "~3").replace("~2", "~4") if b[0] != "u" else b] for a in single for b in single]
    out = []
    for root in (False, True):
        for actor in (1, 3, 2):
            for seq in seqs:
                toks = (["f:/:4"] if root else []) + ["f:/a:2", "f:/a/b:3", "r:/a/b/c:1"]
                toks.append("d:/a/b/c:-:-:cox:%d=%s" % (actor, "+".join(seq)))
                toks += ["d:/a/b/c:-:-:cox:-", "d:/a/b/x:-:-:cox:-", "l:/", "l:/a", "l:/a/b", "g:/a/b", "z"]
                out.append(toks)
    return out


def gen_exhaustive(universe, maxlen, probes, lists):
    """All histories of at most maxlen register / register-fallback / unregister ops over the universe,
    each followed by a fixed observation suite."""
    ops = [(k, p) for p in universe for k in "rfu"]
    out = []
    for n in range(0, maxlen + 1):
        for seq in itertools.product(ops, repeat=n):
            toks = []
            for i, (k, p) in enumerate(seq):
                toks.append("%s:%s:%d" % (k, p, i + 1) if k != "u" else "u:%s" % p)
            for p in probes:
                toks.append("c:%s:-" % p)
            for p in probes[:4]:
                toks.append("c:%s:2" % p)
            for p in lists:
                toks.append("l:%s" % p)
            out.append(toks)
    return out


def relaxed_ok(b):
    """strings on which _dbus_decompose_path runs without tripping an assertion (python-side oracle, independent of the model)"""
    if len(b) == 1: return True
    return len(b) >= 2 and 0 not in b and b[0] == 0x2f and b[-1] != 0x2f and b"//" not in b


def expected_decompose(b):
    if len(b) == 1: return "0:-:2f"
    parts = b[1:].split(b"/")
    return "%d:%s:%s" % (len(parts), ",".join(x.hex() for x in parts), b.hex())


def gen_decompose_cases(rnd, quick):
    out = []
    for n in range(0, 8 if quick else 10):
        for t in itertools.product(b"/a_", repeat=n): out.append(bytes(t))
    for c in range(256): out += [bytes([c]), b"/" + bytes([c]), b"/a" + bytes([c]) + b"b", bytes([c]) + b"/a"]
    for _ in range(1500 if quick else 60000):
        k = rnd.random()
        if k < 0.5:
            out.append(b"".join(b"/" + bytes(rnd.choice(b"abcXYZ019_") for _ in range(rnd.randint(1, 6))) for _ in range(rnd.randint(1, 9))))
        else:
            out.append(bytes(rnd.choice(b"/a_\x00-./b") for _ in range(rnd.randint(0, 12))))
    return out


def check_decompose(rep, info, rnd, quick):
    cases = list(dict.fromkeys(gen_decompose_cases(rnd, quick)))
    lines = ["P %s" % (c.hex() or "-") for c in cases]
    model, mcr = vlib.run_lines(info["model_objtree"], lines)
    ok_cases = [c for c in cases if relaxed_ok(c)]
    impl, icr = vlib.run_lines(info["objtree_h"], ["P %s" % c.hex() for c in ok_cases])
    for line, err in icr:
        rep.violation("_dbus_decompose_path crashed / asserted on `%s`: %s" % (line, err[-500:]), {"line": line, "stderr": err})
    impl_of = dict(zip(ok_cases, impl))
    n_ok = 0
    for c, m in zip(cases, model):
        mm, _, sp = m.partition(" | ")
        exp = expected_decompose(c) if relaxed_ok(c) else "!"
        rp = {"line": "P %s" % (c.hex() or "-"), "model": m, "expected": exp}
        if c in impl_of and impl_of[c] != "!CRASH":
            n_ok += 1
            i = impl_of[c]
            first = i.split(" ")[0]
            rp["impl"] = i
            if first + ":" + (c.hex() if len(c) > 1 else "2f") != exp:
                rep.violation("_dbus_decompose_path(%r) gives %s, the path string has the elements %s" % (c, first, exp), rp)
                continue
            if " msg=" in i and i.split(" msg=")[1] != first.split(":")[1]:
                rep.violation("dbus_message_get_path_decomposed(%r) gives %s, _dbus_decompose_path %s" % (c, i.split(" msg=")[1], first), rp)
                continue
        if mm != exp:
            rp["names"] = "correspondence ObjTree.Decompose.decompose vs expected elements"
            rep.violation("model of _dbus_decompose_path on %r says %s, expected %s" % (c, mm, exp), rp, found_input=False)
        elif sp != "n/a" and sp != mm:
            rp["names"] = "Spec.NamesSpec path_elements vs decompose model"
            rep.violation("path elements of valid path %r: specification %s, model %s" % (c, sp, mm), rp, found_input=False)
    return len(cases), n_ok


def f12_shape(tok_impl, tok_spec):
    """UnknownMethod sent where the property text demands UnknownObject, same handlers invoked."""
    return (tok_impl[:2] in ("c=", "d=") and tok_spec[:2] == tok_impl[:2] and tok_impl.endswith(":M") and tok_spec.endswith(":O")
            and tok_impl[:-2] == tok_spec[:-2])


def run(ctx):
    rep, tier, info = ctx["rep"], ctx["tier"], ctx["info"]
    rnd = random.Random(ctx["seed"])
    known = {k["id"]: k for k in vlib.load_known("C20")}
    quick = tier == "quick"
    lines = []
    origin = {}
    if ctx.get("replay"):
        r = json.load(open(ctx["replay"]))
        lines = [r["replay"]["line"]] if "replay" in r else r["lines"]
    else:
        for f in sorted(glob.glob(os.path.join(vlib.VERIF, "corpus", "C20", "*.json"))):
            for l in json.load(open(f))["lines"]:
                lines.append(l); origin[l] = "corpus"
        U = ["/", "/a", "/a/b", "/a/b/c", "/aa"] if quick else ["/", "/a", "/a/b", "/a/b/c", "/aa", "/a/a_"]
        probes = ["/", "/a", "/a/b", "/a/b/c", "/a/b/c/d", "/aa", "/a/x", "/zz", "/aa/q", "/a/b/x/y", "/a_", "/a/a_"]
        for toks in gen_exhaustive(U, 3 if quick else 4, probes, ["/", "/a", "/a/b", "/aa", "/zz", "/a/b/c"]):
            l = "t " + " ".join(toks); lines.append(l); origin.setdefault(l, "exhaustive")
        # the same enumeration up to 2 ops through the real connection
        for toks in gen_exhaustive(U, 2, probes, ["/", "/a", "/a/b", "/aa", "/zz", "/a/b/c"]):
            l = "c " + " ".join(toks); lines.append(l); origin.setdefault(l, "exhaustive")
        for _ in range(9000 if quick else 300000):
            l = "t " + " ".join(gen_random_history(rnd, "t", big=rnd.random() < 0.5)); lines.append(l); origin.setdefault(l, "random")
        for _ in range(3000 if quick else 60000):
            l = "c " + " ".join(gen_random_history(rnd, "c", big=rnd.random() < 0.5)); lines.append(l); origin.setdefault(l, "random")
        # the whole dispatch: filters, built-ins, message types, NEED_MEMORY, re-entrant callbacks
        for toks in gen_reentrant_exhaustive():
            l = "c " + " ".join(toks); lines.append(l); origin.setdefault(l, "exhaustive")
        rnd2 = random.Random(ctx["seed"] * 7919 + 20)
        for _ in range(4000 if quick else 120000):
            l = "c " + " ".join(gen_dispatch_history(rnd2)); lines.append(l); origin.setdefault(l, "random")
        for _ in range(1500 if quick else 40000):
            l = "t " + " ".join(gen_dispatch_history(rnd2, True)); lines.append(l); origin.setdefault(l, "random")
    n_dec, n_dec_impl = (0, 0) if ctx.get("replay") else check_decompose(rep, info, random.Random(ctx["seed"] + 77), quick)
    seen = set(); uniq = []
    for l in lines:
        if l not in seen:
            seen.add(l); uniq.append(l)
    lines = uniq
    model, mcr = vlib.run_lines(info["model_objtree"], lines)
    impl, icr = vlib.run_lines(info["objtree_h"], lines)
    for line, err in icr:
        rep.violation("implementation crashed / sanitizer report on history `%s`: %s" % (line[:300], err[-600:]), {"line": line, "stderr": err})
    for line, err in mcr:
        rep.violation("extracted model failed on `%s`: %s" % (line[:300], err[-300:]), {"line": line, "names": "model driver"}, found_input=False)
    dist = {"c": 0, "t": 0}
    nontrivial = set()
    n_ops = 0
    n_tokens_checked = 0
    samples = []
    concrete, corr = [], []
    outcomes = {"H": 0, "M": 0, "O": 0, "register_ok": 0, "register_refused": 0, "unregister_hit": 0, "unregister_miss": 0,
                "listings_nonempty": 0, "calls_with_2plus_handlers": 0}
    for line, m, i in zip(lines, model, impl):
        if i == "!CRASH" or m == "!CRASH":
            continue
        if m.startswith("!") or m.startswith("?") or " | " not in m:
            rep.violation("model reports %s on `%s`" % (m, line[:300]), {"line": line, "model": m, "names": "model fault / driver"}, found_input=False)
            continue
        dist[line[0]] += 1
        ops = line.split()[1:]
        mt, st = m.split(" | ")
        mt, st, it = mt.split(), st.split(), i.split()
        n_ops += len(ops)
        if any(t[:2] in ("c=", "d=") and not t[2:].startswith("-") for t in it):
            nontrivial.add(line)
        if len(samples) < 12 and (len(lines) < 12 or rnd.random() < 12.0 / len(lines)):
            samples.append({"history": line[:400], "impl": i[:400], "model": m[:800]})
        if len(it) != len(ops) or len(mt) != len(ops) or len(st) != len(ops):
            rep.violation("result count mismatch on `%s`: impl %d model %d spec %d ops %d" % (line[:200], len(it), len(mt), len(st), len(ops)),
                          {"line": line, "impl": i, "model": m, "names": "harness/driver protocol"}, found_input=False)
            continue
        for a in it:
            if a[:2] == "c=":
                outcomes[a[-1]] = outcomes.get(a[-1], 0) + 1
                if "," in a: outcomes["calls_with_2plus_handlers"] += 1
            elif a == "1": outcomes["register_ok"] += 1
            elif a == "0": outcomes["register_refused"] += 1
            elif a == "u1": outcomes["unregister_hit"] += 1
            elif a == "u0": outcomes["unregister_miss"] += 1
            elif a[:2] in ("l=", "i=") and not a.endswith("-"): outcomes["listings_nonempty"] += 1
        # The specification oracle (flat registration map) judges the IMPLEMENTATION directly, observation by observation:
        # a != c is a concrete violation unless it is exactly a known class (F12 / F12b: implementation = proved model and
        # the proved shape).  Independently, a != b is a broken model/implementation tie.  A line is scanned to its end, so
        # a harmless-looking first disagreement cannot hide a later observation on which the property is broken.
        spec_in_step = True     # false once model and strict specification have taken different turns (F12b): their states may differ
        line_concrete = line_corr = False
        for idx, (o, a, b, c) in enumerate(zip(ops, it, mt, st)):
            n_tokens_checked += 1
            if a[:2] == "d=":
                outcomes["dispatch_" + (a[-1] if a[-1] in "HPGMON" else "I")] = outcomes.get("dispatch_" + (a[-1] if a[-1] in "HPGMON" else "I"), 0) + 1
                if "~" in o: outcomes["dispatch_reentrant"] = outcomes.get("dispatch_reentrant", 0) + 1
            if b[:2] == "z=" and c[:2] == "z=" and sorted(b[2:].split(",")) == sorted(c[2:].split(",")):
                c = b           # the specification fixes which callbacks run, not their order
            if a[:2] == "z=" and c[:2] == "z=" and sorted(a[2:].split(",")) == sorted(c[2:].split(",")) and a != b:
                c = a
            if not spec_in_step:
                c = b
            if a == b == c:
                continue
            prefix = " ".join(ops[:idx + 1])
            rp = {"line": line, "op_index": idx, "op": o, "impl": a, "model": b, "spec": c, "impl_line": i, "model_line": m}
            if a != c:
                if a == b and f12_shape(a, c) and "F12" in known:
                    rep.known(known["F12"], {"history": prefix[-160:], "impl": a, "spec": c})
                elif a == b and o[:2] == "d:" and "r~" in o and "F12b" in known:
                    # C20_dispatch_strict_partial: only a non-fallback registration from inside a callback can do this
                    rep.known(known["F12b"], {"history": prefix[-200:], "impl": a, "spec": c})
                    spec_in_step = False
                elif not line_concrete:
                    line_concrete = True
                    what = "after `%s`: implementation answers %s, specification demands %s (model: %s)" % (prefix[-300:], a, c, b)
                    if a[:2] in ("c=", "d=") and c[:2] == a[:2] and a[2:].split(":")[0] != c[2:].split(":")[0]:
                        what += " — handlers offered %s, the registrations in force demand %s (exact handler, then fallbacks of shorter ancestors)" % (
                            a[2:].split(":")[0], c[2:].split(":")[0])
                    concrete.append((what, rp))
            if a != b and not line_corr and not line_concrete:
                line_corr = True
                rp2 = dict(rp); rp2["names"] = "correspondence objtree_h vs ObjTree.{ObjTree,Dispatch} (%s)" % o.split(":")[0]
                corr.append(("after `%s`: implementation answers %s but the model says %s (specification: %s)" % (prefix[-300:], a, b, c), rp2))
    # concrete failing inputs first, so that they are among the reported ones
    for what, rp in concrete:
        rep.violation(what, rp)
    concrete_lines = set(rp["line"] for _, rp in concrete)
    for what, rp in corr:
        if rp["line"] not in concrete_lines:
            rep.violation(what, rp, found_input=False)
    rep.coverage.update({
        "evaluations": len(lines), "operations": n_ops, "distinct_nontrivial": len(nontrivial),
        "rule": "every history of <= %d register/register-fallback/unregister operations over a %d-path universe (internal tree API) and of <= 2 "
                "through a real connection pair, each followed by calls to 12 probe paths (inside, beside, below) and 6 child listings; random histories "
                "(2..14 mutations over generated path sets with shared prefixes, up to 12 adjacently sorting siblings, the root, unregistration in the "
                "middle, declining and accepting handlers) with interleaved calls / list_registered / Introspect; non-trivial = at least one handler "
                "was invoked; distinct = distinct history lines; plus (level c) every <=2-operation action sequence over /a, /a/b, /a/b/c performed by each "
                "callback of a call to /a/b/c, and random histories with filters, all message types x Peer/Introspectable/other/no interface, "
                "accepting / NEED_MEMORY-once / re-entrantly registering and unregistering callbacks, pending-call replies, get_object_path_data "
                "and the unregister order at connection death; plus _dbus_decompose_path on all strings <= 7 over {/,a,_}, every byte in 4 "
                "positions and random strings" % (3 if quick else 4, 5 if quick else 6),
        "decompose_path_cases": n_dec, "decompose_path_cases_run_on_implementation": n_dec_impl,
        "samples": samples, "input_distribution": dist, "observed_by_implementation": outcomes, "origin": {k: sum(1 for l in lines if origin.get(l) == k) for k in ("corpus", "exhaustive", "random")},
        "traces_validated_against_impl": len(lines), "result_tokens_compared": n_tokens_checked,
        "disagreements_checked": len(rep.violations), "exhaustive": False,
        "explanation": "theorems: for every history the trie model refines the flat registration map (order of handlers, occupied-path "
                       "rejection, child listing, tree invariant; error choice partially, F12), the whole dispatch of one message refines the flat-map "
                       "dispatch (re-entrancy strict only partially, F12b), decompose_path characterised completely; correspondence: implementation = model on every "
                       "generated history, observation by observation; the specification oracle is evaluated on every observation as well",
    })
    rep.assumptions = [
        "coq/ObjTree/ObjTree.v is hand-written after dbus-object-tree.c; tied to the code only by this run",
        "coq/ObjTree/Dispatch.v and Decompose.v likewise (dbus_connection_dispatch, _dbus_object_tree_dispatch_and_unlock, _dbus_decompose_path)",
        "single thread; no allocation failure inside the library (callbacks returning NEED_MEMORY are covered); filters are not added/removed from inside callbacks",
        "pointer identity of referenced subtrees is modelled as path + attached bit (justification in the header of Dispatch.v); tied to the code by the re-entrant histories of this run",
        "mode t derives M/O from the DBusHandlerResult and *found_object; the error actually sent is observed in mode c only",
        "GetMachineId is only observed as 'answered by the library' (method return with a string or the error reading the id)",
    ]
