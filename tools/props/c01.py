"""C01 — untrusted bytes become a message only if spec-valid, and always safely."""
import os, random, struct, sys
import vlib
sys.path.insert(0, os.path.join(vlib.VERIF, "tools"))
import wiregen

HARNESSES = ("wire_h",)
MLS = ("wire", "reader")
THEOREMS = []   # filled in below once Props/C01.v exists
if os.path.exists(os.path.join(vlib.COQ, "Props", "C01.v")):
    import re
    THEOREMS = re.findall(r"^Theorem\s+(C01_[A-Za-z0-9_]+)", open(os.path.join(vlib.COQ, "Props", "C01.v")).read(), re.M)


def special_cases(rnd):
    """hand-aimed inputs at the case splits of the validator"""
    from rawbus import Msg, Variant
    out = []
    base = dict(mtype=4, flags=0, serial=1, fields={1: "/a", 2: "a.b", 3: "S"})

    def mk(sig, rawbody, le=True, **kw):
        d = dict(base)
        d.update(kw)
        m = Msg(d["mtype"], d["flags"], d["serial"], d["fields"], "", (), le=le)
        m.fields[8] = sig
        b = bytearray(m.encode())
        e = "<" if le else ">"
        struct.pack_into(e + "I", b, 4, len(rawbody))
        return bytes(b) + rawbody
    for le in (True, False):
        e = "<" if le else ">"
        # fixed-size arrays whose byte length is not a multiple of the element size
        for t, sz in (("n", 2), ("q", 2), ("i", 4), ("u", 4), ("b", 4), ("h", 4), ("x", 8), ("t", 8), ("d", 8)):
            for ln in (0, 1, sz - 1, sz, sz + 1, 2 * sz - 1, 2 * sz, 3 * sz + 1):
                pad = b"\0" * (4 if sz == 8 else 0)
                out.append(mk("a" + t, struct.pack(e + "I", ln) + pad + b"\0" * ln, le))
                out.append(mk("a" + t, struct.pack(e + "I", ln) + pad + b"\1" + b"\0" * (ln - 1) if ln else struct.pack(e + "I", 0) + pad, le))
        # booleans 0,1,2, 256, 2^31
        for v in (0, 1, 2, 256, 2 ** 31, 2 ** 32 - 1):
            out.append(mk("b", struct.pack(e + "I", v), le))
            out.append(mk("ab", struct.pack(e + "II", 4, v), le))
            out.append(mk("ab", struct.pack(e + "III", 8, 1, v), le))
        # array length words at the limits (bodies not materialised)
        for ln in (2 ** 26 - 1, 2 ** 26, 2 ** 26 + 1, 2 ** 27, 2 ** 31, 2 ** 32 - 1):
            out.append(mk("ay", struct.pack(e + "I", ln) + b"\0" * 8, le))
            out.append(mk("as", struct.pack(e + "I", ln) + b"\0" * 8, le))
        # variants: bad / empty / multiple signatures, mis-nested brackets, deep nesting
        for vs in (b"", b"ii", b"(", b"a", b"a{ii}", b"{ii}", b"(a{ii)i}", b"a{i(i})", b"(i", b"i)", b"z", b"a{vi}", b"()", b"a{i}", b"a{iii}"):
            out.append(mk("v", bytes([len(vs)]) + vs + b"\0" + b"\0" * 16, le))
            out.append(mk("g", bytes([len(vs)]) + vs + b"\0", le))
        for depth in (30, 31, 32, 33, 62, 63, 64, 65, 66):
            body = b"".join(b"\x01v\0" for _ in range(depth)) + b"\x01y\0\x05"
            out.append(mk("v", body, le))
        # containers at the nesting limit: fixed-size arrays, string arrays, structs (FD65 boundary)
        for k in (62, 63, 64, 65):
            for isig, ival in (("ay", [7]), ("ay", []), ("ai", [1, 2]), ("as", ["x"]), ("(y)", (7,)), ("ab", [True])):
                v = Variant(isig, ival)
                for _ in range(k - 1):
                    v = Variant("v", v)
                out.append(Msg(4, 0, 1, {1: "/a", 2: "a.b", 3: "S"}, "v", (v,), le=le).encode())
        # signatures as header field 8 with mis-nested brackets
        for sg in ("(a{ii)i}", "a{i(i})", "a(a{ii)i}", "((a{ii)i}i)"):
            out.append(mk(sg, b"\0" * 32, le))
    # string contents: one NUL / continuation byte at every position of body strings of every length up to three machine words,
    # as a plain argument, inside a variant and as an array element
    for L in range(1, 26):
        for pos in range(L):
            for bad in (0x00, 0x80):
                sv = bytearray(b"a" * L)
                sv[pos] = bad
                raw = struct.pack("<I", L) + bytes(sv) + b"\0"
                out.append(mk("s", raw))
                if bad == 0 or pos % 3 == 0:
                    out.append(mk("v", b"\x01s\0\0" + raw))
                    out.append(mk("as", struct.pack("<I", len(raw)) + raw))
    # variants whose signature holds several complete types, with data for exactly the first one (nothing after it that could
    # trip a "too much data" check): must be rejected for the signature alone
    FIXSZ = {"y": 1, "b": 4, "n": 2, "q": 2, "i": 4, "u": 4, "x": 8, "t": 8, "d": 8}
    for le in (True, False):
        for first, sz in FIXSZ.items():
            for rest in ("i", "s", "y", "ai", "v", "(y)", "x"):
                vs = (first + rest).encode()
                head = bytes([len(vs)]) + vs + b"\0"
                out.append(mk("v", head + b"\0" * ((-len(head)) % sz) + b"\0" * sz, le))
                out.append(mk("yv", b"\x07" + head + b"\0" * ((-(1 + len(head))) % sz) + b"\0" * sz, le))
    # one-byte length words with the top bit set: variant signatures / signature values of 120..255 bytes, valid and cut short
    for le in (True, False):
        for k in (118, 125, 126, 127, 128, 129, 200, 253):
            ssig = "(" + "y" * k + ")"
            good = Msg(4, 0, 1, {1: "/a", 2: "a.b", 3: "S"}, "yvy", (7, Variant(ssig, tuple(range(k))), 0xEE), le=le).encode()
            out.append(good)
            out.append(good[:-1])
            out.append(Msg(4, 0, 1, {1: "/a", 2: "a.b", 3: "S"}, "gs", ("i" * (k + 2), "x"), le=le).encode())
    for k in (254, 255):
        out.append(Msg(4, 0, 1, {1: "/a", 2: "a.b", 3: "S"}, "g", ("y" * k,)).encode())
    # body signature nesting of arrays and structs at 31..34 with empty arrays
    for k in (31, 32, 33):
        out.append(mk("a" * k + "i", struct.pack("<I", 0)))
        out.append(mk("(" * k + "i" + ")" * k, b"\0" * 4))
    # header-level: local interface/path by equality and by prefix, duplicate fields, field code 0, wrong types
    from rawbus import F_PATH, F_INTERFACE, F_MEMBER
    for iface in ("org.freedesktop.DBus.Local", "org.freedesktop.DBus.Localx", "org.freedesktop.DBus.Local.x", "org.freedesktop.DBus.Loca"):
        out.append(Msg(4, 0, 1, {1: "/a", 2: iface, 3: "S"}).encode())
    for path in ("/org/freedesktop/DBus/Local", "/org/freedesktop/DBus/Localx", "/org/freedesktop/DBus/Local/x", "/org/freedesktop/DBus/Loca"):
        out.append(Msg(4, 0, 1, {1: path, 2: "a.b", 3: "S"}).encode())
    for code in (0, 1, 2, 5, 8, 9, 10, 11, 255):
        for vt, vv in (("s", "a.b"), ("o", "/a"), ("u", 5), ("g", "i"), ("y", 1), ("as", ["x"]), ("(s)", ("x",)), ("v", Variant("s", "x"))):
            m = Msg(4, 0, 1, {1: "/a", 2: "a.b", 3: "S"}, extra_fields=[(code, Variant(vt, vv))])
            out.append(m.encode())
    for mt in (0, 1, 2, 3, 4, 5, 255):
        for fields in ({}, {1: "/a"}, {1: "/a", 3: "M"}, {2: "a.b", 3: "M"}, {1: "/a", 2: "a.b", 3: "M"}, {5: 1}, {4: "a.b"}, {4: "a.b", 5: 1}, {5: 0, 4: "a.b"}):
            out.append(Msg(mt, 0, 1, fields).encode())
    for serial in (0, 1):
        for ver in (0, 1, 2):
            b = bytearray(Msg(4, 0, serial, {1: "/a", 2: "a.b", 3: "S"}).encode())
            b[3] = ver
            out.append(bytes(b))
    return out


def run(ctx):
    rep, tier, info = ctx["rep"], ctx["tier"], ctx["info"]
    rnd = random.Random(ctx["seed"])
    known = vlib.load_known("C01")
    nbase = 40 if tier == "quick" else 600
    cases = []          # (kind, bytes)
    bases = []
    for _ in range(nbase):
        m = wiregen.rand_message(rnd, max_depth=3 if rnd.random() < 0.8 else 6)
        b = wiregen.encode(m)
        bases.append(b)
        cases.append(("valid", b))
    for b in special_cases(rnd):
        cases.append(("special", b))
    nmut = 12 if tier == "quick" else 120
    for b in sorted(bases, key=len)[:nmut] + [x for x in bases if len(x) < 400][:nmut]:
        for mb in wiregen.mutations(b, rnd):
            cases.append(("mut", mb))
    for _ in range(2000 if tier == "quick" else 50000):
        n = rnd.choice((0, 1, 15, 16, 17, 24, 40, 100))
        cases.append(("random", bytes([rnd.choice((0x6c, 0x42, rnd.randrange(256)))] + [rnd.choice((0, 1, 2, 4, rnd.randrange(256))) for _ in range(n)])))
    if ctx.get("replay"):
        import json
        rp = json.load(open(ctx["replay"]))["replay"]
        h = rp.get("input", "")
        h = h.split(" ")[-1] if " " in h else h          # accepts "load m <hex>" or the bare hex
        cases = [("replay", bytes.fromhex("" if h == "-" else h))]
    seen = set(); uniq = []
    for c in cases:
        if c[1] not in seen:
            seen.add(c[1]); uniq.append(c)
    cases = uniq
    hexes = [vlib.hexs(b) for _, b in cases]
    impl, icr = vlib.run_lines(info["wire_h"], ["load m " + h for h in hexes])
    model, mcr = vlib.run_lines(info["model"], ["load m " + h for h in hexes])
    spec, scr = vlib.run_lines(info["model"], ["spec1 " + h for h in hexes])
    impl_dm, icr2 = vlib.run_lines(info["wire_h"], ["demarshal " + h for h in hexes])
    model_dm, _ = vlib.run_lines(info["model"], ["demarshal " + h for h in hexes])
    for line, err in icr + icr2:
        rep.violation("implementation crashed / sanitizer or assertion failure on `%s`: %s" % (line[:300], err[-700:]), {"input": line, "stderr": err})
    accepted = []
    kinds = {}
    reasons = {}
    nontrivial = set()
    for (kind, b), h, i, m, s, idm, mdm in zip(cases, hexes, impl, model, spec, impl_dm, model_dm):
        kinds[kind] = kinds.get(kind, 0) + 1
        if i == "!CRASH" or idm == "!CRASH":
            continue
        if m.startswith("?") or s.startswith("?"):
            rep.violation("model driver failed on %s: %s / %s" % (h[:200], m, s), {"input": h, "names": "ml/wire driver"}, found_input=False)
            continue
        ip = dict(x.split("=", 1) for x in i.split(" "))
        mp = dict(x.split("=", 1) for x in m.split(" "))
        reasons[ip["reason"]] = reasons.get(ip["reason"], 0) + 1
        imsgs = [] if ip["msgs"] == "-" else ip["msgs"].split("|")
        spec_valid = s.startswith("valid")
        spec_total = int(s.split("total=")[1].split()[0]) if spec_valid else None
        first_ok = bool(imsgs)
        if first_ok:
            nontrivial.add(b)
            accepted.append((h, s))
        model_reason = int(mp["reason"])
        agree = (ip["corrupted"] == mp["corrupted"] and ip["msgs"] == mp["msgs"])
        if model_reason in (-100, -101, -102) and mp["corrupted"] == "1":
            # the model itself faulted (read outside the buffer / fuel / grammar gap): a finding in its own right
            k = [x for x in known if x["id"] in ("F14", "F15")]
            what = {-100: "model-level read outside the buffer (Fault)", -101: "out of fuel", -102: "validated signature rejected by the grammar parser"}[model_reason]
            if not any(rep.known(x, h[:80]) or True for x in k[:1]):
                rep.violation("%s on input %s (implementation says corrupted=%s reason=%s)" % (what, h[:300], ip["corrupted"], ip["reason"]),
                              {"cmd": "load m", "input": h, "impl": i, "model": m})
            continue
        # the property itself, judged by the specification oracle on the implementation's behaviour
        if first_ok and not spec_valid:
            k = known_class(known, b, "accept-invalid")
            if k and agree:
                rep.known(k, h[:120])
            else:
                rep.violation("implementation yields a message from bytes the specification rejects: %s" % h[:400], {"cmd": "load m", "input": h, "impl": i, "model": m, "spec": s})
            continue
        if spec_valid and not first_ok and ip["reason"] == "56":
            continue      # well-formed bytes announcing descriptors that did not arrive: not a byte-level question (C15)
        if spec_valid and not first_ok:
            k = known_class(known, b, "reject-valid")
            if k and agree:
                rep.known(k, h[:120])
            else:
                rep.violation("implementation rejects (corrupted=%s reason=%s) bytes that are a valid message per the specification: %s" % (ip["corrupted"], ip["reason"], h[:400]),
                              {"cmd": "load m", "input": h, "impl": i, "model": m, "spec": s})
            continue
        if spec_valid and first_ok and imsgs[0] != h[:2 * spec_total]:
            rep.violation("first message produced is not the spec message prefix: %s" % h[:300], {"cmd": "load m", "input": h, "impl": i, "spec": s})
            continue
        if not agree:
            if ip["corrupted"] == mp["corrupted"] and ip["msgs"] == mp["msgs"]:
                pass
            rep.violation("loader outcome differs from model on %s: impl %s vs model %s" % (h[:200], i[:120], m[:120]),
                          {"cmd": "load m", "input": h, "impl": i, "model": m, "names": "correspondence wire_h/load vs Wire.Message.feed"}, found_input=False)
        elif ip["reason"] != mp["reason"]:
            rep.violation("corruption reason differs from model on %s: impl %s vs model %s" % (h[:200], ip["reason"], mp["reason"]),
                          {"cmd": "load m", "input": h, "impl": i, "model": m, "names": "correspondence (reason code) wire_h/load vs Wire.Message"}, found_input=False)
        if idm != mdm:
            rep.violation("dbus_message_demarshal/bytes_needed differs from model on %s: impl %s vs model %s" % (h[:200], idm[:100], mdm[:100]),
                          {"cmd": "demarshal", "input": h, "impl": idm, "model": mdm, "names": "correspondence wire_h/demarshal vs Wire.Message.demarshal"}, found_input=False)
    # accessor clause: what the public accessor/iterator API reads = independent decoding (spec decoder)
    dumps, dcr = vlib.run_lines(info["wire_h"], ["load d " + h for h, _ in accepted])
    for line, err in dcr:
        rep.violation("implementation crashed while reading an accepted message through the accessor API: %s: %s" % (line[:300], err[-700:]), {"input": line, "stderr": err})
    ndump = 0
    for (h, s), d in zip(accepted, dumps):
        if d == "!CRASH" or "dump=" not in s:
            continue
        first = d.split("msgs=", 1)[1].split("|")[0]
        if first != s.split("dump=", 1)[1]:
            rep.violation("accessor/iterator values differ from independent decoding for %s:\n impl %s\n spec %s" % (h[:200], first[:300], s.split("dump=", 1)[1][:300]),
                          {"cmd": "load d", "input": h, "impl": d, "spec": s})
        ndump += 1
    # the message-size limit at its boundary: total wire length (header incl. its padding to 8 + body) against a small
    # max_message_size, for every header padding 0..7, both byte orders: accepted iff length <= max, and equal to the model
    n_size = 0
    if not ctx.get("replay"):
        from rawbus import Msg as _Msg
        slines, smeta = [], []
        for mx in (400, 4096):
            for le in (True, False):
                for mlen in range(1, 10):
                    base = len(_Msg(4, 0, 1, {1: "/a", 2: "a.b", 3: "M" * mlen}, "ay", (b"",), le=le).encode(field_order=[1, 2, 8, 3]))     # MEMBER last: its length sets the header padding
                    for extra in range(-9, 10):
                        nbytes = mx + extra - base
                        if nbytes < 0:
                            continue
                        bb = _Msg(4, 0, 1, {1: "/a", 2: "a.b", 3: "M" * mlen}, "ay", (bytes(nbytes),), le=le).encode(field_order=[1, 2, 8, 3])
                        slines.append("loadmax %d m %s" % (mx, vlib.hexs(bb))); smeta.append((mx, len(bb)))
        si, scr = vlib.run_lines(info["wire_h"], slines)
        sm, _ = vlib.run_lines(info["model"], slines)
        for line, err in scr:
            rep.violation("implementation crashed at the message-size limit: %s: %s" % (line[:200], err[-500:]), {"input": line, "stderr": err})
        for l, (mx, total), a, b_ in zip(slines, smeta, si, sm):
            if a == "!CRASH":
                continue
            n_size += 1
            accepted = "msgs=-" not in a
            if accepted != (total <= mx):
                rep.violation("a message of %d bytes is %s with max_message_size %d" % (total, "accepted" if accepted else "rejected", mx), {"cmd": "loadmax", "input": l, "impl": a, "model": b_})
            elif a.split(" ")[0] != b_.split(" ")[0] or a.split("msgs=")[1] != b_.split("msgs=")[1]:
                rep.violation("loader outcome at the size limit differs from model: %s vs %s" % (a[:80], b_[:80]), {"cmd": "loadmax", "input": l, "impl": a, "model": b_, "names": "correspondence wire_h/loadmax vs Wire.Message.have_message"}, found_input=False)
    rd_cov = {}
    if not ctx.get("replay"):
        from props import c01_reader
        rd_cov = c01_reader.leg(ctx, rep, rnd, tier)
    rep.coverage.update({
        "evaluations": len(cases) + rd_cov.get("reader_messages_compared", 0), "distinct_nontrivial": len(nontrivial),
        "rule": "structured random valid messages (all types, nested containers, both byte orders, shuffled/unknown header fields); every "
                "single-byte corruption (5 values, +1, -1) at every offset, truncation at every offset and trailing bytes for the smaller ones; "
                "hand-aimed cases at validator case splits (fixed-array lengths, booleans, 2^26/2^27 length words, variant signatures, nesting 30..66, "
                "reserved names, field codes x types, mandatory fields x message types, serial/version); random short buffers. "
                "non-trivial = the implementation produced a message; distinct = distinct byte strings",
        "samples": [{"kind": k, "hex": h[:160], "impl": i[:120]} for (k, _), h, i in list(zip(cases, hexes, impl))[::max(1, len(cases) // 10)]][:10],
        "input_distribution": {"kinds": kinds, "corruption_reasons_hit": reasons, "reader_leg": {k: v for k, v in rd_cov.items() if k not in ("reader_samples", "reader_rule")}},
        "accessor_dumps_compared": ndump, "size_limit_cases": n_size, "reader_rule": rd_cov.get("reader_rule", ""),
        "traces_validated_against_impl": len(cases), "disagreements_checked": len(rep.violations),
    })
    rep.assumptions = ["loader fed whole buffers here; chunkings are C11", "128 MiB bodies are not materialised: limits are exercised through length words",
                       "no read/write outside the buffer is observed through ASan/UBSan + assertions on the implementation side and as explicit Fault in the model"]


def fixed_array_at_depth_limit(m):
    """FD65 class: a non-empty array of fixed-size elements whose own container depth is 64 (its elements would be at 65)"""
    from rawbus import Variant, split_sig

    def walk(sig, val, depth):
        c = sig[0]
        if c == "v":
            return walk(val.sig, val.val, depth + 1)
        if c == "a":
            et = sig[1:]
            if et[0] in "ybnqiuxtdh":
                return depth == 64 and len(val) > 0
            if et[0] == "{":
                ks, vs = split_sig(et[1:-1])
                return any(walk(vs, x[1], depth + 2) for x in val)
            return any(walk(et, x, depth + 1) for x in val)
        if c == "(":
            return any(walk(t, x, depth + 1) for t, x in zip(split_sig(sig[1:-1]), val))
        return False
    try:
        return any(walk(t, v, 0) for t, v in zip(split_sig(m.sig), m.body))
    except Exception:
        return False


def known_class(known, b, direction):
    """narrow matchers for the recorded findings"""
    from rawbus import parse_message
    for k in known:
        if k.get("direction") != direction:
            continue
        if k["id"] == "FD65":
            try:
                m, _ = parse_message(bytearray(b))
            except Exception:
                m = None
            if m is not None and fixed_array_at_depth_limit(m):
                return k
        if k["id"] == "F2":
            # destination / sender is a unique name with fewer than two elements or an empty first element
            try:
                m, _ = parse_message(bytearray(b))
            except Exception:
                m = None
            if m is not None:
                for code in (6, 7):
                    v = m.fields.get(code)
                    if isinstance(v, str) and v.startswith(":") and ("." not in v[1:] or v[1:].split(".")[0] == ""):
                        return k
    return None
