"""C02, writer leg — the libdbus message writer (dbus_message_iter_append_basic / open_container / close_container)
against the writer model (coq/Wire/Writer.v, executed operation by operation by ml/writer).

leg(ctx, rep, rnd, tier) generates well-typed construction programs, runs them through the `build` command of
ctx["info"]["wire_h"] (the real API, one call per token) and through `wbuild` of the extracted writer model (one
writer_step per token) and compares body bytes and body signature.  The theorem Props/C02.v:C02_writer_correct says
the model's output is the specification encoding, so agreement here ties the C writer to the specification encoder."""
import os, sys
import vlib
sys.path.insert(0, os.path.join(vlib.VERIF, "tools"))
import wiregen

MLS = ("writer",)
HDR = "build 4 0 1 path=2f61,iface=612e62,member=53 "
NAMES = "correspondence wire_h/build (DBusTypeWriter via dbus_message_iter_*) vs Wire.Writer.writer_step (ml/writer wbuild)"

# one element type per alignment class / first-type-code class the writer distinguishes
ELEM_TYPES = ("y", "g", "v", "n", "q", "b", "i", "u", "s", "o", "ai", "ax", "x", "t", "d", "(y)", "(ii)", "(yx)", "{sv}", "{yx}", "a{ys}", "a(x)", "av")
SAMPLE = {"y": "y7", "g": "g6169", "v": "Vy y9 ;", "n": "n513", "q": "q65535", "b": "b1", "i": "i16909060", "u": "u4294967295", "s": "s6869", "o": "o2f61",
          "ai": "Ai i1 i2 ]", "ax": "Ax ]", "x": "x72623859790382856", "t": "t1", "d": "d4609434218613702656", "(y)": "( y1 )", "(ii)": "( i1 i2 )",
          "(yx)": "( y1 x2 )", "{sv}": "{ s61 Vi i7 ; }", "{yx}": "{ y1 x2 }", "a{ys}": "A{ys} { y1 s62 } ]", "a(x)": "A(x) ( x1 ) ]", "av": "Av Vs s63 ; ]"}


def directed_programs():
    """body token strings aimed at the case splits of the writer and of its proof"""
    out = []
    # empty (and one/two element) arrays of every element alignment at every offset mod 8, followed by a byte so that the end shows
    for off in range(8):
        pre = " ".join("y%d" % (i + 1) for i in range(off))
        for et in ELEM_TYPES:
            for body in ("", SAMPLE[et], SAMPLE[et] + " " + SAMPLE[et]):
                out.append(("%s A%s %s ] y255" % (pre, et, body)).strip())
        # arrays of arrays: empty outer, empty inner, mixed; the inner padding depends on where the inner array starts
        for et in ("y", "n", "i", "x", "s", "(yx)", "{sv}", "v"):
            e = SAMPLE[et]
            out.append(("%s Aa%s ] y255" % (pre, et)).strip())
            out.append(("%s Aa%s A%s ] A%s %s ] A%s ] A%s %s %s ] ] y255" % (pre, et, et, et, e, et, et, e, e)).strip())
            out.append(("%s Aaa%s Aa%s ] Aa%s A%s ] A%s %s ] ] ] y255" % (pre, et, et, et, et, et, e)).strip())
        # variants (signature in the value string) at every offset: contained alignment 1, 2, 4, 8; containers inside
        for et in ELEM_TYPES:
            if et[0] == "{":
                continue
            out.append(("%s V%s %s ; y255" % (pre, et, SAMPLE[et])).strip())
        out.append(("%s Vax Ax ] ; y255" % pre).strip())
        out.append(("%s Vaax Aax Ax ] Ax x1 ] ] ; y255" % pre).strip())
        out.append(("%s Va{sv} A{sv} { s61 Vax Ax ] ; } { s62 Vv Va{yv} A{yv} { y1 V(yx) ( y2 x3 ) ; } ] ; ; } ] ; y255" % pre).strip())
        # structs: padding at open, fields of every alignment, nested struct closing inside an array (type_pos moves through the element type)
        out.append(("%s ( y1 ( y2 ( y3 x4 ) n5 ) s61 ) y255" % pre).strip())
        out.append(("%s A(y(y(yx)n)s) ( y1 ( y2 ( y3 x4 ) n5 ) s61 ) ( y6 ( y7 ( y8 x9 ) n10 ) s- ) ] y255" % pre).strip())
        out.append(("%s A(yaxay) ( y1 Ax ] Ay ] ) ( y2 Ax x3 ] Ay y4 y5 ] ) ] y255" % pre).strip())
    # variants in dict entries, dict entries with every key type
    for k, kv in (("y", "y1"), ("b", "b1"), ("n", "n2"), ("q", "q3"), ("i", "i4"), ("u", "u5"), ("x", "x6"), ("t", "t7"), ("d", "d8"), ("s", "s6b"), ("o", "o2f6b"), ("g", "g73")):
        out.append("A{%sv} { %s Vs s61 ; } { %s V(ii) ( i1 i2 ) ; } { %s Vav Av Vy y1 ; ] ; } ]" % (k, kv, kv, kv))
        out.append("A{%sa{%sv}} { %s A{%sv} { %s Vx x1 ; } ] } { %s A{%sv} ] } ]" % (k, k, kv, k, kv, kv, k))
    # strings crossing every padding boundary, signatures of every length class
    for n in (0, 1, 2, 3, 4, 5, 7, 8, 9, 255, 256):
        out.append("y1 s%s y2 o2f%s y3" % ("78" * n or "-", "61" * n))
    for n in (0, 1, 254, 255):
        out.append("y1 g%s y2" % ("69" * n or "-"))
    # nesting to 32: arrays, structs, arrays of structs, variants (64 levels in total are valid on the wire)
    for k in (1, 2, 8, 31, 32):
        out.append("A" + "a" * (k - 1) + "i " + " ".join("A" + "a" * (k - 2 - j) + "i" for j in range(k - 1)) + " i7 " + " ".join("]" for _ in range(k)))
        out.append("y1 A" + "a" * (k - 1) + "x " + " ".join("A" + "a" * (k - 2 - j) + "x" for j in range(k - 1)) + " " + " ".join("]" for _ in range(k)))
        out.append(" ".join("(" for _ in range(k)) + " x7 " + " ".join(")" for _ in range(k)))
        out.append("y1 " + " ".join("Vv" for _ in range(k - 1)) + " Vx x7 ; " + " ".join(";" for _ in range(k - 1)))
    for k in (1, 4, 15, 16):
        # a(a(...(i)...)) : array and struct levels alternate
        def ty(j):
            return "i" if j == 0 else "a(" + ty(j - 1) + ")"
        toks = []
        for j in range(k, 0, -1):
            toks += ["A(" + ty(j - 1) + ")", "("]
        toks += ["i7"] + [") ]"] * k
        out.append(" ".join(toks))
    # many top-level arguments (the signature string grows at its end every time)
    out.append(" ".join("y%d" % (i % 256) for i in range(255)))
    out.append(" ".join(("Ay y1 ]", "( y1 )", "Vy y1 ;")[i % 3] for i in range(60)))
    return list(dict.fromkeys(" ".join(x.split()) for x in out))


FIXED = "ybnqiuxtd"
FIXED_EDGE = {"y": (0, 1, 255), "b": (0, 1), "n": (0, 1, 32768, 65535), "q": (0, 258, 65535), "i": (0, 16909060, 2 ** 31, 2 ** 32 - 1), "u": (0, 1, 2 ** 32 - 1),
              "x": (0, 72623859790382856, 2 ** 63, 2 ** 64 - 1), "t": (0, 1, 2 ** 64 - 1), "d": (0, 4609434218613702656, 0x7ff8000000000000, 2 ** 63)}
STRLIKE = {"s": ("s-", "s61", "s68c3a96c6c6f", "s" + "78" * 9), "o": ("o2f", "o2f61", "o2f612f625f63"), "g": ("g-", "g69", "g617b73767d", "g28696929")}


def fixed_elems(rnd, c, n):
    e = FIXED_EDGE[c]
    return " ".join("%s%d" % (c, e[(k + rnd.randrange(len(e))) % len(e)] if rnd else e[k % len(e)]) for k in range(n))


def fixed_programs():
    """F<c> e... ] : arrays of fixed-size elements written by ONE dbus_message_iter_append_fixed_array call"""
    out = []
    for off in range(8):
        pre = " ".join("y%d" % (i + 1) for i in range(off))
        for c in FIXED:
            for n in (0, 1, 2, 7, 300):
                out.append("%s F%s %s ] y255" % (pre, c, fixed_elems(None, c, n)))
            e2 = fixed_elems(None, c, 2)
            # nested: struct field, variant content, dict value, array element (empty and not), after a field that misaligns
            out.append("%s ( y1 F%s %s ] F%s ] ) y255" % (pre, c, e2, c))
            out.append("%s Va%s F%s %s ] ; Va%s F%s ] ; y255" % (pre, c, c, e2, c, c))
            out.append("%s A{sa%s} { s61 F%s %s ] } { s- F%s ] } ] y255" % (pre, c, c, e2, c))
            out.append("%s Aa%s F%s ] F%s %s ] F%s %s ] ] y255" % (pre, c, c, c, e2, c, fixed_elems(None, c, 7)))
            out.append("%s A(ya%s) ( y1 F%s %s ] ) ( y2 F%s ] ) ] y255" % (pre, c, c, e2, c))
            out.append("%s V(a%sy) ( F%s %s ] y3 ) ; y255" % (pre, c, c, e2))
    return list(dict.fromkeys(" ".join(x.split()) for x in out))


def to_fixed_calls(rnd, body):
    """rewrite some A<c> ... ] groups of fixed element type into F<c> ... ] (same values, one call)"""
    toks = body.split()
    changed = False
    for j, t in enumerate(toks):
        if len(t) == 2 and t[0] == "A" and t[1] in FIXED and rnd.random() < 0.7:
            toks[j] = "F" + t[1]
            changed = True
    return " ".join(toks) if changed else None


def args_programs(rnd, n):
    """buildargs programs: every top-level argument through its own dbus_message_append_args call"""
    out = []
    for c in FIXED:
        for k in (0, 1, 2, 7, 300):
            for off in (0, 1, 3):
                out.append(" ".join(["y7"] * off + ["A%s %s ]" % (c, fixed_elems(None, c, k)), "y255"]))
    for c, vals in STRLIKE.items():
        for k in (0, 1, 2, 5):
            for off in (0, 1, 5):
                out.append(" ".join(["y7"] * off + ["A%s %s ]" % (c, " ".join(vals[i % len(vals)] for i in range(k))), "y255"]))
    for _ in range(n):
        args = []
        for _k in range(rnd.choice((1, 2, 3, 5, 8))):
            r = rnd.random()
            if r < 0.35:
                c = rnd.choice(FIXED)
                args.append("%s%d" % (c, rnd.choice(FIXED_EDGE[c])))
            elif r < 0.5:
                c = rnd.choice("sog")
                args.append(rnd.choice(STRLIKE[c]))
            elif r < 0.85:
                c = rnd.choice(FIXED)
                args.append("A%s %s ]" % (c, fixed_elems(rnd, c, rnd.choice((0, 0, 1, 2, 3, 7, 40)))))
            else:
                c = rnd.choice("sog")
                args.append("A%s %s ]" % (c, " ".join(rnd.choice(STRLIKE[c]) for _j in range(rnd.choice((0, 1, 2, 4))))))
        out.append(" ".join(args))
    return list(dict.fromkeys(" ".join(x.split()) for x in out))


def body_of(prog):
    parts = prog.split(" ", 5)
    return parts[5] if len(parts) > 5 else ""


def impl_body_sig(line):
    """(body hex, signature hex) of a wire_h `build` result line"""
    hx = line.split(" bytes=", 1)[1].split(" ", 1)[0]
    raw = bytes.fromhex(hx)
    body = raw[wiregen.header_len(raw):]
    sg = line.split(" sig=", 1)[1].split(" ", 1)[0]
    return (body.hex() or "-"), ("-" if sg in ("", "~", "-") else sg), hx


def model_body_sig(line):
    d = dict(x.split("=", 1) for x in line.split(" ") if "=" in x)
    return d.get("bytes"), d.get("sig")


def leg(ctx, rep, rnd, tier, only=None):
    info = ctx["info"]
    wmodel = info.get("model_writer") or info.get("writer_model") or vlib.build_ml("writer")
    # a program is (mode, tokens): "iter" = one iterator, one API call per token (F groups: open, ONE append_fixed_array, close);
    # "args" = one dbus_message_append_args call per top-level argument
    if only is not None:
        cases = [("args", only[len("buildargs "):])] if only.startswith("buildargs ") else [("iter", only)]
    else:
        bodies = directed_programs() + fixed_programs()
        n = 1500 if tier == "quick" else 40000
        for _ in range(n):
            b = body_of(wiregen.rand_program(rnd, max_depth=rnd.choice((1, 2, 3, 3, 5))))
            bodies.append(b)
            f = to_fixed_calls(rnd, b)
            if f:
                bodies.append(f)
        cases = [("iter", b) for b in dict.fromkeys(" ".join(x.split()) for x in bodies) if b]
        cases += [("args", b) for b in args_programs(rnd, 300 if tier == "quick" else 8000) if b]
    bodies = [("buildargs " + b) if md == "args" else b for md, b in cases]      # replay form
    progs = [(HDR.replace("build ", "buildargs ", 1) if md == "args" else HDR) + b for md, b in cases]
    wlines = [("wbuildargs le " if md == "args" else "wbuild le ") + b for md, b in cases]
    impl, icr = vlib.run_lines(info["wire_h"], progs)
    model, mcr = vlib.run_lines(wmodel, wlines)
    for line, err in icr:
        rep.violation("implementation crashed / asserted while building a well-typed message through the iterator API: `%s`: %s" % (line[:300], err[-700:]),
                      {"input": dict(zip(progs, bodies)).get(line, body_of(line)), "cmd": line, "stderr": err, "leg": "writer"})
    shapes = {"with_variant": 0, "with_array": 0, "with_dict": 0, "with_struct": 0, "empty_array": 0, "depth_ge_8": 0,
              "with_fixed_array_call": 0, "empty_fixed_array_call": 0, "append_args_programs": 0, "append_args_string_arrays": 0}
    agree, mismatches = 0, []
    for b, p, i, m in zip(bodies, progs, impl, model):
        if i == "!CRASH":
            continue
        if m == "!CRASH" or m.startswith(("?", "fail@", "open@")):
            rep.violation("writer model driver failed on a well-typed program (%s): %s" % (m[:60], b[:300]), {"input": b, "model": m, "leg": "writer", "names": NAMES}, found_input=False)
            continue
        if i.startswith("refused"):
            rep.violation("public construction API refused a well-typed program (%s): %s" % (i[:60], b[:300]), {"input": b, "impl": i, "leg": "writer", "names": "generator well-typedness vs API"}, found_input=False)
            continue
        toks = b.split()
        if toks[0] == "buildargs":
            toks = toks[1:]
            shapes["append_args_programs"] += 1
            if any(t[0] == "A" and t[1] in "sog" for t in toks):
                shapes["append_args_string_arrays"] += 1
            if any(t[0] == "A" and t[1] in FIXED for t in toks):
                shapes["with_fixed_array_call"] += 1
            if any(t[0] == "A" and t[1] in FIXED and toks[j + 1] == "]" for j, t in enumerate(toks[:-1])):
                shapes["empty_fixed_array_call"] += 1
        elif any(t[0] == "F" for t in toks):
            shapes["with_fixed_array_call"] += 1
        for k, pred in (("with_variant", lambda t: t[0] == "V"), ("with_array", lambda t: t[0] in "AF"), ("with_dict", lambda t: t == "{"), ("with_struct", lambda t: t == "(")):
            if any(pred(t) for t in toks):
                shapes[k] += 1
        if any(t[0] in "AF" and toks[j + 1] == "]" for j, t in enumerate(toks[:-1])):
            shapes["empty_array"] += 1
        depth = mx = 0
        for t in toks:
            if t[0] in "AVF" or t in ("(", "{"):
                depth += 1
                mx = max(mx, depth)
            elif t in ("]", ")", "}", ";"):
                depth -= 1
        if mx >= 8:
            shapes["depth_ge_8"] += 1
        ib, isg, whole = impl_body_sig(i)
        mb, msg = model_body_sig(m)
        if (ib, isg) == (mb, msg):
            agree += 1
        else:
            mismatches.append((b, p, i, m, ib, isg, mb, msg, whole))
    if mismatches:
        # which side is wrong?  the specification decoder on the implementation's whole message, and the specification
        # encoder on the program (wire model's `build`)
        spec = info.get("model_wire") or info.get("model") or vlib.build_ml("wire")
        sres, _ = vlib.run_lines(spec, ["spec1 " + x[8] for x in mismatches])
        # the specification encoder sees the same abstract values: F<c> groups and buildargs programs as plain arrays
        plain = lambda b: HDR + " ".join(("A" + t[1:]) if t[0] == "F" else t for t in b.split() if t != "buildargs")
        bres, _ = vlib.run_lines(spec, [plain(x[0]) for x in mismatches])
        for (b, p, i, m, ib, isg, mb, msg, whole), sr, br in zip(mismatches, sres, bres):
            want = br.split(" bytes=", 1)[1].split(" ", 1)[0] if " bytes=" in br else None
            what = "body bytes" if ib != mb else "body signature"
            if sr.startswith("valid") and "reenc=same" in sr and want == whole:
                rep.violation("writer model disagrees with the implementation on the %s, and the implementation's message is the specification encoding of the program: %s\n impl  body=%s sig=%s\n model body=%s sig=%s"
                              % (what, b[:200], ib[:200], isg, (mb or "")[:200], msg), {"input": b, "impl": i, "model": m, "spec": sr[:300], "leg": "writer", "names": NAMES}, found_input=False)
            else:
                rep.violation("the message writer's output (%s) is not the encoding of the appended values: %s\n impl  body=%s sig=%s\n model body=%s sig=%s\n spec decoder on the implementation's message: %s"
                              % (what, b[:200], ib[:200], isg, (mb or "")[:200], msg, sr[:120]), {"input": b, "cmd": p, "impl": i, "model": m, "spec": sr[:300], "leg": "writer"})
    return {"programs": len(bodies), "agree": agree, "mismatch": len(mismatches), "impl_crashes": len(icr), "shapes": shapes,
            "samples": bodies[:2] + bodies[len(bodies) // 2:len(bodies) // 2 + 2],
            "rule": "well-typed construction programs (wiregen.rand_program type trees of depth <= 5 plus directed: empty/1/2-element arrays of 23 element types at every offset mod 8, "
                    "arrays of arrays with empty inner arrays, variants of every contained alignment at every offset, variants in dict entries with every key type, struct-in-array type_pos walks, "
                    "nesting to 32 for arrays/structs/variants/array-struct alternation, 255 arguments; F groups = arrays of each of the 9 fixed types of length 0/1/2/7/300 at every offset mod 8 written by "
                    "ONE dbus_message_iter_append_fixed_array call, also inside structs, variants, dict values, arrays of arrays, and random programs with A<fixed> groups rewritten to F; "
                    "buildargs programs = one dbus_message_append_args call per argument: basics, fixed arrays incl. empty, string/path/signature arrays); "
                    "each token is one API call on the implementation and one writer_step in the model (an F group: open, one WFixedMulti, close); "
                    "compared: body bytes after the header and the SIGNATURE header field; little-endian only (dbus_message_new always uses the host order)"}
