"""C07 — broadcasts reach exactly the connections whose match rules match.

Correspondence, two legs:
 (a) in-process: harness/c/match_h.c (the real bus/signals.c compiled into the harness) against the
     extracted model on rule strings (parse), rule x message pairs (match_rule_matches), rule pairs
     (match_rule_equal) and arg-number keys (strtoul);
 (b) end to end: histories of Hello / RequestName / AddMatch / RemoveMatch / send / disconnect on several
     raw connections against a fresh ASan dbus-daemon per history (harness/py/match_e2e.py), against the
     stateful model world (Match/Bus.v: step).
Every case is also evaluated by the specification oracle (Spec/MatchSpec.v, extracted); a case where
code = model but the specification differs must fall into a known finding."""
import itertools, json, os, random, sys, glob
import vlib

sys.path.insert(0, os.path.join(vlib.VERIF, "harness", "py"))
import match_e2e as E
import match_gen as G

HARNESSES = (("match_h", ["libdbus-daemon-internal.a"]),)
MLS = ("match",)
THEOREMS = ["C07_exactly_once", "C07_matches_spec", "C07_broadcast_delivery", "C07_unicast_delivery",
            "C07_no_fault", "C07_dispatch_total", "C07_rule_equal", "C07_remove",
            "C07_remove_single_reply", "C07_remove_not_found", "C07_remove_failure_keeps", "C07_disconnect_clears", "C07_disconnect_keeps", "C07_reachable_inv",
            "C07_tokenize_exact", "C07_tokenize_partial", "C07_parse_items", "C07_parse_partial", "C07_parse_refuted",
            "C07_parse_refuted_token_cap", "C07_parse_refuted_backslash", "C07_parse_refuted_arg_key", "C07_parse_refuted_unique_name",
            "C07_index_step", "C07_index_history", "C07_index_recipients", "C07_abs_injective", "C07_rule_equal_spec",
            "C07_remove_match_spec", "C07_owner_change_keeps_rules"]

UNIQ = {"{U1}": ":1.1", "{U2}": ":1.2", "{U3}": ":1.3", "{U9}": ":1.99999"}


def subst(s):
    for k, v in UNIQ.items():
        s = s.replace(k, v)
    return s


def hx(s):
    b = s if isinstance(s, bytes) else s.encode("utf-8", "surrogateescape")
    return b.hex() or "-"


def load_known():
    known = {k["id"]: k for k in vlib.load_known("C07")}
    p = ""      # only the committed known-findings.json is consulted at run time
    if os.path.exists(p):
        for k in json.load(open(p)):
            if k.get("property") == "C07" and k.get("status") == "known":
                known.setdefault(k["id"], k)
            elif k.get("property") == "C07" and k.get("status") == "fixed":
                known.pop(k["id"], None)          # a fixed finding suppresses nothing
    return known


# ---------------------------------------------------------------------------------
# stateless cases
# ---------------------------------------------------------------------------------
TOK_ALPHA = ["arg0", "arg1", "type", "signal", "=", "'", "\\", ",", " ", "x"]


def gen_parse_cases(tier, rnd):
    cases = []
    maxtok = 4 if tier == "quick" else 6
    for n in range(0, maxtok + 1):
        for t in itertools.product(TOK_ALPHA, repeat=n):
            cases.append("".join(t))
    # every byte value in the syntactically interesting positions
    for b in range(1, 256):
        ch = bytes([b])
        for tmpl in (b"arg0=%c", b"arg0='%c'", b"arg0%c=x", b"%carg0=x", b"arg0=x%c", b"arg%c=x", b"arg0=\\%c", b"arg0=a%cb,arg1=c", b"type%c='signal'"):
            cases.append(tmpl.replace(b"%c", ch))
    for k, v in G.BAD_ITEMS:
        cases.append("%s='%s'" % (k, v))
        cases.append("type='signal',%s='%s'" % (k, v))
    for k in G.ODD_ARG_KEYS:
        cases.append("%s='v'" % k)
    for n in range(0, 70):
        cases += ["arg%d='v'" % n, "arg%dpath='/v/'" % n, "arg%dnamespace='a.b'" % n, "arg0%d=v" % n, "arg0x%x=v" % n, "arg+%d=v" % n]
    # around the token cap and the length limit
    for n in range(12, 20):
        base = ",".join("arg%d='v'" % i for i in range(n))
        for tail in ("", ",type='signal'", ",type='bogus'", ",bogus", ",=", ",arg0='dup'", ", ", ","):
            cases.append(base + tail)
        cases.append(",".join(["eavesdrop='true'"] * n) + ",type='bogus'")
        cases.append(",".join(["eavesdrop='true'"] * n) + ",eavesdrop='false'")
    for total in range(1018, 1030):
        cases.append("arg0='" + "a" * (total - 7) + "'")
        cases.append("type='signal'," + " " * (total - 14))
        cases.append("arg0=" + "\\" * (total - 5))
    cases += ["arg0=''\\''',arg1='\\',arg2=',',arg3='\\\\'", "arg0=\\',arg1=\\,arg2=',',arg3=\\\\", "", " ", "=", "=x", "type='signal',=junk",
              "type='signal' ,member='M'", "type='signal', member='M'", "type = 'signal'", "type= 'signal'", "type='sig''nal'", "type=sig'n'al",
              "arg0=a\\,arg1=b", "arg0=a\\\\'b'", "arg0=\\\\',arg1=x'"]
    for _ in range(6000 if tier == "quick" else 400000):
        cases.append(subst(G.gen_rule_text(rnd)))
    return cases


def msg_for_items(rnd, items):
    """a driver-sent message built to satisfy the (valid) items, then perturbed in at most one place"""
    d = dict(items)
    t = G.TYPE_CODE.get(d.get("type", "signal"), 4)
    path = d.get("path", d.get("path_namespace", rnd.choice(G.PATHS)))
    if "path_namespace" in d and rnd.random() < 0.5:
        path = (path.rstrip("/") + rnd.choice(("/x", "x", "/x/y") if path != "/" else ("/x", "/x/y"))) if rnd.random() < 0.8 else path
    iface = d.get("interface", rnd.choice(G.IFACES))
    member = d.get("member", rnd.choice(G.MEMBERS))
    dest = None
    if "destination" in d and d.get("eavesdrop") == "true":
        dest = subst(d["destination"])
    elif d.get("eavesdrop") == "true" and rnd.random() < 0.5:
        dest = rnd.choice(("w.a", ":1.1"))
    nargs = 0
    want = {}
    for k, v in items:
        if k.startswith("arg") and k[3:4].isdigit():
            num = "".join(itertools.takewhile(str.isdigit, k[3:]))
            n = int(num)
            if n < 6:
                want[n] = (k[3 + len(num):], v)
                nargs = max(nargs, n + 1)
    args = []
    for i in range(max(nargs, rnd.choice((0, 1, 2)))):
        if i in want:
            kind, v = want[i]
            r = rnd.random()
            if kind == "path":
                cand = [v, v + "x", v + "/", v + "/x", v[:-1], v.rstrip("/"), "/", ""]
                a = rnd.choice(cand)
                args.append(["o", a] if (rnd.random() < 0.4 and a in G.PATHS) else ["s", a])
            elif kind == "namespace":
                args.append(["s", rnd.choice([v, v + ".x", v + "x", v + ".", v[:-1], v + ".x.y"])])
            else:
                args.append(["s", v] if r < 0.7 else rnd.choice((["s", v + "x"], ["s", v[:-1]], ["o", "/a"], ["x"])))
        else:
            args.append(rnd.choice((["s", rnd.choice(G.ARG_STR)], ["o", rnd.choice(G.PATHS)], ["x"])))
    m = [t, path, iface, member, dest, args]
    r = rnd.random()
    if r < 0.08:
        m[0] = rnd.choice((1, 2, 3, 4, 5))
    elif r < 0.16:
        m[1] = rnd.choice(G.PATHS + [None])
    elif r < 0.24:
        m[2] = rnd.choice(G.IFACES + [None])
    elif r < 0.32:
        m[3] = rnd.choice(G.MEMBERS + [None])
    elif r < 0.38:
        m[4] = rnd.choice(("w.a", ":1.1", None, "org.freedesktop.DBus"))
    elif r < 0.44 and m[5]:
        m[5] = m[5][:rnd.randrange(len(m[5]))]
    return m


def gen_match_cases(tier, rnd):
    cases = []
    n = 9000 if tier == "quick" else 500000
    for _ in range(n):
        items = G.gen_items(rnd, fault_ok=rnd.random() < 0.03)
        # the in-process harness plays the bus driver as sender
        items = [(k, ("org.freedesktop.DBus" if (k == "sender" and rnd.random() < 0.7) else v)) for k, v in items]
        text = subst(G.render(rnd, items))
        msg = msg_for_items(rnd, items) if rnd.random() < 0.8 else G.gen_msg(rnd, ["w.a", ":1.1", "org.freedesktop.DBus"])
        msg = [msg[0]] + [subst(x) if isinstance(x, str) else x for x in msg[1:5]] + [msg[5]]
        cases.append((text, msg))
    # arg path / namespace boundary table: every rule value against every argument value
    for ev in G.ARG_PATHV:
        for av in G.ARG_PATHV + ["/a/b/c/"]:
            for kind in ("s", "o"):
                if kind == "o" and av not in G.PATHS:
                    continue
                if ev == "":
                    continue       # the empty-value cases are generated separately (they fault)
                cases.append(("arg0path='%s'" % ev, [4, "/", "a.b", "M", None, [[kind, av]]]))
                cases.append(("arg1path='%s'" % ev, [4, "/", "a.b", "M", None, [["x"], [kind, av]]]))
    for ev in G.ARG_NS:
        for av in G.ARG_NS + ["", "a.", "a.b.", "a..b", "ab", "a.bc", "w.a.b.c"]:
            cases.append(("arg0namespace='%s'" % ev, [4, "/", "a.b", "M", None, [["s", av]]]))
    for pv in G.PATHS:
        for mp in G.PATHS + ["/a/bc", "/abc", "/a/b/c/d", "/org", "/org/freedesktop/DBusx", "/org/freedesktop/DBus/x"]:
            cases.append(("path_namespace='%s'" % pv, [4, mp, "a.b", "M", None, []]))
            cases.append(("path='%s'" % pv, [4, mp, "a.b", "M", None, []]))
    # the empty argNpath value (F6) against empty / non-empty / non-string arguments
    for n_ in (0, 1):
        for a in (["s", ""], ["s", "x"], ["o", "/"], ["x"], None):
            args = ([["x"]] * n_) + ([a] if a else [])
            cases.append(("arg%dpath=''" % n_, [4, "/", "a.b", "M", None, args]))
            cases.append(("type='error',arg%dpath=''" % n_, [4, "/", "a.b", "M", None, args]))
    return cases


def gen_equal_cases(tier, rnd):
    cases = list(G.gen_hole_pairs())
    for _ in range(400 if tier == "quick" else 20000):
        r1, r2, _n, _m, _v = G.hole_pair(rnd)
        cases.append((r1, r2) if rnd.random() < 0.5 else (r2, r1))
    for _ in range(3000 if tier == "quick" else 200000):
        items = G.gen_items(rnd)
        a = subst(G.render(rnd, items))
        r = rnd.random()
        items2 = list(items)
        if r < 0.3:
            rnd.shuffle(items2)
        elif r < 0.6 and items2:
            i = rnd.randrange(len(items2))
            k, v = items2[i]
            pools = {"type": G.TYPES, "interface": G.IFACES, "member": G.MEMBERS, "path": G.PATHS, "path_namespace": G.PATHS,
                     "sender": G.SENDERS, "destination": G.SENDERS, "eavesdrop": ["true", "false"], "arg0namespace": G.ARG_NS}
            items2[i] = (k, rnd.choice(pools.get(k, G.ARG_STR if not k.endswith("path") else G.ARG_PATHV)))
        elif r < 0.7 and items2:
            items2.pop(rnd.randrange(len(items2)))
        elif r < 0.8 and items2:
            i = rnd.randrange(len(items2))
            k, v = items2[i]
            swap = {"path": "path_namespace", "path_namespace": "path", "sender": "destination", "destination": "sender"}
            if k in swap and swap[k] not in dict(items2):
                items2[i] = (swap[k], v)
            elif k.startswith("arg") and k.endswith("path"):
                items2[i] = (k[:-4], v)
            elif k.startswith("arg") and k[3:].isdigit():
                items2[i] = (k + "path", v)
        elif r < 0.85:
            items2 = items2 + [("eavesdrop", "false")]
        else:
            items2 = G.gen_items(rnd)
        cases.append((a, subst(G.render(rnd, items2))))
    return cases


def gen_uint_cases(tier, rnd):
    cases = ["", "0", "1", "63", "64", "0x", "0x0", "0X1f", "0xg", "00", "08", "010", "+1", "-1", "-0", "+", "-", " 1", "\t1", "\x0b1", "\x0c1", "\r1", "\n1",
             "1 ", "1path", "0namespace", "18446744073709551615", "18446744073709551616", "18446744073709551614", "-18446744073709551615",
             "-18446744073709551616", "0xffffffffffffffff", "0x10000000000000000", "01777777777777777777777", "02000000000000000000000",
             "99999999999999999999999999", "0b1", "0B1", "1e5", "+-1", "-+1", "+ 1", "0x+1", "0x 1", "٣"]
    alpha = "0123456789abfxX+- \t\x0b\x0cpn"
    for n in range(1, 4 if tier == "quick" else 5):
        for t in itertools.product(alpha, repeat=n):
            cases.append("".join(t))
    for _ in range(2000 if tier == "quick" else 100000):
        cases.append("".join(rnd.choice(alpha) for _ in range(rnd.randint(1, 24))))
    return cases


def msg_line(m):
    return E.msg_desc(m)


# ---------------------------------------------------------------------------------
# end to end
# ---------------------------------------------------------------------------------
def _run_sc(arg):
    exe, sc = arg
    try:
        obs, rc, err = E.run_scenario(exe, sc)
    except Exception as ex:          # e.g. the daemon binary is being relinked by a concurrent build
        return ["?exception %r" % (ex,)], None, ""
    return obs, rc, err[-6000:]


def canon(x):
    for tag in (" x=", " st=", " ix="):
        if tag in x:
            x = x[:x.index(tag)]
    if x[:2] in ("D ", "S ") and x[2:] != "-":
        return x[:2] + ",".join(sorted(x[2:].split(","), key=int))
    if x[:1] == "O" and " " in x and not x.endswith(" -"):
        h, l = x.split(" ", 1)
        return h + " " + ",".join(sorted(l.split(","), key=int))
    if x in ("N", "U", "J", "K"):
        return "D -"
    if x.startswith("G ") and x != "G -":
        parts = []
        for p in x[2:].split(";"):
            n, rc = p.split(":")
            parts.append(n + ":" + (rc if rc == "-" else ",".join(sorted(rc.split(","), key=int))))
        return "G " + ";".join(sorted(parts))
    return x


def corpus_scenarios():
    out = []
    for f in sorted(glob.glob(os.path.join(vlib.VERIF, "corpus", "C07", "*.json"))):
        d = json.load(open(f))
        for sc in (d if isinstance(d, list) else [d]):
            sc["_src"] = os.path.basename(f)
            out.append(sc)
    return out


CLASS_TO_FINDING = {"ek": "F5", "cap": "F5", "odd": "C07-N1", "bs": "C07-N2", "f2": "F2"}


def class_known(rep, known, classes, sample):
    """model = code != specification: acceptable only inside a known class.  Returns True if accounted for."""
    hit = False
    for c in classes.split(","):
        fid = CLASS_TO_FINDING.get(c)
        if fid and fid in known:
            rep.known(known[fid], sample)
            hit = True
    return hit


def split_ms(line):
    """'model | spec' -> (model, spec)"""
    if " | " in line:
        a, b = line.split(" | ", 1)
        return a, b
    return line, ""


def stateless_verdict(rep, known, cmd, l, i, m, s):
    """i = implementation, m = model, s = spec oracle fields"""
    sf = s.split()
    if cmd == "uint":
        if i != m:
            rep.violation("uint: _dbus_string_parse_uint `%s` vs model `%s` on %s" % (i, m, l), {"input": l, "impl": i, "model": m,
                          "names": "correspondence match_h/uint vs Match.Rule.parse_uint"}, found_input=False)
        return
    spec_v = sf[0]
    classes = sf[-1]
    if i != m:
        impl_v = i[:1]
        # does the implementation itself break the specification on this input?
        spec_ok = (impl_v == spec_v) if cmd != "parse" else (impl_v == spec_v and (impl_v != "O" or classes == "-"))
        if not spec_ok and not (classes != "-"):
            rep.violation("%s: implementation `%s`, specification `%s` (model `%s`) on %s" % (cmd, i[:160], spec_v, m[:160], l[:300]),
                          {"input": l, "impl": i, "model": m, "spec": s})
        else:
            rep.violation("%s: implementation `%s` vs model `%s` (specification oracle: `%s`) on %s" % (cmd, i[:160], m[:160], s, l[:300]),
                          {"input": l, "impl": i, "model": m, "spec": s, "names": "correspondence match_h/%s vs Match model" % cmd}, found_input=False)
        return
    # implementation = model; compare with the specification
    if cmd == "parse":
        agree = sf[1] == "1"
    else:
        agree = m == spec_v
    if agree:
        return
    if cmd == "equal" and m == "1" and spec_v == "0" and "F8" in known:
        a, b = (bytes.fromhex(x if x != "-" else "") for x in l.split()[1:3])
        if b"path_namespace" in a and b"path_namespace" in b:
            rep.known(known["F8"], l)
            return
    if classes != "-" and class_known(rep, known, classes, l):
        return
    rep.violation("%s: code and model say `%s`, the specification says `%s` on %s" % (cmd, m[:160], s, l[:300]),
                  {"input": l, "impl": i, "model": m, "spec": s})


def run(ctx):
    rep, tier, info = ctx["rep"], ctx["tier"], ctx["info"]
    rnd = random.Random(ctx["seed"])
    known = load_known()
    model_exe, harness = info["model_match"], info["match_h"]
    dist = {}
    nontrivial = set()
    samples = []
    replay_lines, replay_scs = [], []
    if ctx.get("replay"):
        rp = json.load(open(ctx["replay"]))
        rp = rp.get("replay", rp)
        if "scenario" in rp:
            replay_scs.append(rp["scenario"])
        if "input" in rp:
            replay_lines.append(rp["input"])

    # ---------------- leg (a): stateless ----------------
    lines = list(replay_lines)
    if not ctx.get("replay"):
        for t in gen_parse_cases(tier, rnd):
            lines.append("parse " + hx(t))
        for t, m in gen_match_cases(tier, rnd):
            lines.append("match %s %s" % (hx(t), msg_line(m)))
        for a, b in gen_equal_cases(tier, rnd):
            lines.append("equal %s %s" % (hx(a), hx(b)))
        for s in gen_uint_cases(tier, rnd):
            lines.append("uint " + hx(s))
    lines = list(dict.fromkeys(lines))
    both, mcr = vlib.run_lines(model_exe, lines)
    for line, err in mcr:
        rep.violation("extracted model failed on `%s`: %s" % (line[:200], err[-300:]), {"input": line, "names": "model driver"}, found_input=False)
    model = [split_ms(x) for x in both]
    safe = [(l, m, s) for l, (m, s) in zip(lines, model) if m != "F"]
    faulty = [(l, m, s) for l, (m, s) in zip(lines, model) if m == "F"]
    impl, icr = vlib.run_lines(harness, [l for l, _, _ in safe])
    for line, err in icr:
        rep.violation("implementation crashed / sanitizer report on input `%s` (model predicts no fault): %s" % (line[:300], err[-900:]),
                      {"input": line, "stderr": err})
    for (l, m, s), i in zip(safe, impl):
        cmd = l.split()[0]
        dist[cmd] = dist.get(cmd, 0) + 1
        if i == "!CRASH" or m.startswith("?") or m == "!CRASH":
            continue
        if m not in ("I", "L", "X", "-", "0"):
            nontrivial.add(l)
        stateless_verdict(rep, known, cmd, l, i, m, s)
    # the fault class: each case in its own process, the sanitizer must report the under-read in match_rule_matches
    fault_checked = 0
    for l, m, s in faulty[:25 if tier == "quick" else 200]:
        res, cr = vlib.run_one(harness, l)
        fault_checked += 1
        dist["match(fault)"] = dist.get("match(fault)", 0) + 1
        if cr and "AddressSanitizer" in cr[0][1] and "match_rule_matches" in cr[0][1]:
            k = known.get("F6")
            if k:
                rep.known(k, l)
            else:
                rep.violation("out-of-bounds read in match_rule_matches (sanitizer report) on `%s`" % l, {"input": l, "stderr": cr[0][1][-1500:]})
        else:
            rep.violation("model predicts an out-of-bounds read, implementation answered `%s` on %s" % (res, l),
                          {"input": l, "impl": res, "names": "correspondence match_h/match vs Match.Matcher.arg_matches (Fault)"}, found_input=False)
    samples += [{"line": l, "model": m, "spec": s, "impl": i} for (l, m, s), i in list(zip(safe, impl))[::max(1, len(safe) // 8)]][:8]

    # ---------------- leg (b): end to end ----------------
    scs = list(replay_scs)
    if not ctx.get("replay"):
        scs += corpus_scenarios()
        for k in range(1000 if tier == "quick" else 12000):
            scs.append(G.gen_directed(rnd) if k % 4 == 3 else G.gen_scenario(rnd))
    exp = [E.expand(s) for s in scs]
    mlines, spans = [], []
    for s in exp:
        ls = E.model_lines(s)
        spans.append((len(mlines), len(ls)))
        mlines += ls
    mres, mcr = vlib.run_lines(model_exe, mlines, shards=1)
    for line, err in mcr:
        rep.violation("extracted model failed on `%s`: %s" % (line[:200], err[-300:]), {"input": line, "names": "model driver"}, found_input=False)
    import multiprocessing
    with multiprocessing.Pool(min(vlib.NPROC, 12)) as pool:
        results = pool.map(_run_sc, [(info["daemon"], s) for s in exp], chunksize=4)
    n_events = 0
    spec_compared = 0
    for sc, s, (start, cnt), (obs, rc, err) in zip(scs, exp, spans, results):
        sc = {k: v for k, v in sc.items() if not k.startswith("_")}
        ml = mlines[start + 1:start + cnt]
        mo = mres[start + 1:start + cnt]
        spec_live = True          # specification world still in step with the model world
        gone = set()              # unique names of connections that have disconnected
        broke = False
        for j, o in enumerate(obs):
            n_events += 1
            m_raw, s_raw = split_ms(mo[j])
            if " ix=0" in m_raw:
                rep.violation("indexed and flat matchmaker models disagree at `%s` (%s)" % (ml[j][:200], m_raw),
                              {"scenario": sc, "event_index": j, "event": ml[j], "names": "Match.Index.istep vs Match.Bus.step (C07_index_history)"}, found_input=False)
            m = canon(m_raw)
            o = canon(o)
            op = ml[j].split()[0]
            dist["e2e " + op] = dist.get("e2e " + op, 0) + 1
            if o not in ("D -", "S -", "R invalid", "O1 -", "O2 -"):
                nontrivial.add((start, j))
            replay = {"scenario": sc, "event_index": j, "event": ml[j], "impl": o, "model": m, "spec": s_raw, "daemon_exit": rc, "stderr": err[-1500:]}
            if o.startswith("?"):
                rep.violation("end-to-end glue failed at `%s`: %s" % (ml[j][:200], o), dict(replay, names="harness/py/match_e2e.py"), found_input=False)
                broke = True
                break
            if o == "F" and m == "F":
                if "AddressSanitizer" in err and "match_rule_matches" in err and "F6" in known:
                    rep.known(known["F6"], ml[j])
                else:
                    rep.violation("dbus-daemon died handling `%s` (exit %s)" % (ml[j][:200], rc), replay)
                broke = True
                break
            if o == "F":
                rep.violation("dbus-daemon died handling `%s` (exit %s): %s" % (ml[j][:200], rc, err[-600:]), replay)
                broke = True
                break
            if m == "F":
                rep.violation("model predicts an out-of-bounds read at `%s`, daemon answered `%s`" % (ml[j][:200], o),
                              dict(replay, names="correspondence daemon vs Match.Bus.step (Fault)"), found_input=False)
                broke = True
                break
            # --- specification oracle on this event
            sp_fields = s_raw.split(" ")
            classes = sp_fields[-1] if op in ("add", "rm") else "-"
            sp = canon(" ".join(sp_fields[:-1]) if op in ("add", "rm") else s_raw)
            if o != m:
                if spec_live and o == sp:
                    rep.violation("history event `%s`: daemon `%s` (as the specification says) vs model `%s`" % (ml[j][:200], o, m),
                                  dict(replay, names="correspondence daemon vs Match.Bus.step"), found_input=False)
                elif spec_live:
                    rep.violation("history event `%s`: daemon `%s`, specification `%s` (model `%s`)" % (ml[j][:200], o, sp, m), replay)
                else:
                    rep.violation("history event `%s`: daemon `%s` vs model `%s`" % (ml[j][:200], o, m),
                                  dict(replay, names="correspondence daemon vs Match.Bus.step"), found_input=False)
                broke = True
                break
            if op == "disc":
                gone.add(":1.%d" % s["plan"][int(ml[j].split()[1])])
                if " x=" in m_raw and " x=0" not in m_raw and spec_live:
                    # the matchmaker also dropped other connections' rules naming the leaving unique name
                    if "C07-N3" in known:
                        rep.known(known["C07-N3"], ml[j])
                    else:
                        rep.violation("disconnect `%s` removed rules of other connections (%s)" % (ml[j], m_raw), replay)
                    spec_live = False
            if spec_live:
                spec_compared += 1
                if op in ("add", "rm") and classes != "-" and (m != sp or m == "R ok"):
                    # the text is in a class where the code reads something else than the specification
                    # (even when both accept): from here on the two worlds hold different rules
                    if not class_known(rep, known, classes, ml[j]):
                        rep.violation("history event `%s`: daemon and model `%s`, the specification says `%s` (class %s)" % (ml[j][:200], m, sp, classes), replay)
                    spec_live = False
                elif m == sp and m_raw.endswith(" st=0"):
                    # same answer, but the two worlds now hold different rules
                    text = bytes.fromhex(ml[j].split()[2].replace("-", "")) if op in ("add", "rm") else b""
                    if op == "rm" and b"path_namespace" in text and "F8" in known:
                        rep.known(known["F8"], ml[j])
                    else:
                        rep.violation("history event `%s`: same answer `%s` but the rule sets of code/model and specification differ" % (ml[j][:200], m), replay)
                    spec_live = False
                elif m != sp:
                    text = bytes.fromhex(ml[j].split()[2].replace("-", "")) if op in ("add", "rm") else b""
                    if op == "rm" and m == "R oknotfound" and sp == "R notfound" and "F9" in known:
                        rep.known(known["F9"], ml[j])                 # same state on both sides: keep comparing
                    elif op == "rm" and m == "R ok" and sp == "R notfound" and b"path_namespace" in text and "F8" in known:
                        rep.known(known["F8"], ml[j])
                        spec_live = False
                    elif op == "rm" and m == "R notfound" and sp == "R ok" and any(g.encode() in text for g in gone) and "C07-N3" in known:
                        rep.known(known["C07-N3"], ml[j])
                        spec_live = False
                    else:
                        rep.violation("history event `%s`: daemon and model `%s`, the specification says `%s`" % (ml[j][:200], m, sp), replay)
                        spec_live = False
        if not broke and len(obs) == cnt - 1:
            if rc not in (0, -15) or "Sanitizer" in err:
                rep.violation("dbus-daemon exit status %s / sanitizer output after a history: %s" % (rc, err[-600:]), {"scenario": sc, "daemon_exit": rc, "stderr": err[-1500:]})
    samples += [{"scenario_events": exp[k]["events"][:6], "observations": results[k][0][:8]} for k in range(0, len(exp), max(1, len(exp) // 4))][:4]

    rep.coverage.update({
        "evaluations": len(lines) + n_events, "distinct_nontrivial": len(nontrivial),
        "rule": "(a) all strings of <= %d tokens over a 10-token alphabet, every byte value in 9 positional templates, bad-value table, arg numbers 0..69 in 6 spellings, "
                "12..19 tokens x 8 tails, lengths 1018..1029 in 3 shapes, random grammar-based rule strings with mutations; rule x message pairs built to match and then "
                "perturbed in one place, full argNpath / arg0namespace / path_namespace value tables; rule pairs for equality; strtoul strings; "
                "(b) %d histories of 8-24 events on 2-4 connections + controller, fresh daemon each; non-trivial = rule accepted / match positive / "
                "delivery or signal observed; distinct = distinct input lines / (history, event)" % (4 if tier == "quick" else 6, len(exp)),
        "samples": samples, "input_distribution": dist, "traces_validated_against_impl": len(lines) + n_events,
        "disagreements_checked": len(rep.violations), "exhaustive": False,
        "fault_cases_replayed": fault_checked, "history_events_compared_with_spec_oracle": spec_compared,
        "explanation": "theorems: see notes/C07.md; correspondence: implementation = model on every generated case (in-process and end to end); "
                       "the specification oracle (extracted Spec.MatchSpec) is evaluated on every case, differences must fall into a known class",
    })
    rep.assumptions = ["bus runs with an allow-all policy and uid 0 (callers are privileged: eavesdrop='true' is permitted)",
                       "strtoul as in glibc 2.36 (no 0b prefix), C locale; unsigned long is 64 bit",
                       "BusMatchmaker's per-type pools and per-interface hash tables are modelled one to one (Match/Index.v) and proved equivalent to one insertion-ordered list for every history; a hash table is an association list (hash order unobservable)",
                       "rule texts contain no NUL byte (they arrive as D-Bus STRING values)"]
