"""C13 — configured resource limits are never exceeded.

Correspondence: every generated history (connect as several users / Hello /
disconnect / RequestName / ReleaseName / AddMatch / RemoveMatch / method calls with
and without reply / replies / signals / messages around the size limit) is replayed
against a fresh dbus-daemon built from /repo's working tree with generated <limit>
values (connect as several users, authenticate, Hello, ...) (harness/py/limits_run.py, raw-wire clients) and through the extracted Coq
model (coq/Limits/Limits.v, which runs the C04 registry model for the names); after
every event the messages every connection received (per socket, in order), and at the
probes ListQueuedOwners / ListNames, are compared.  An independent counting oracle
(written from the property text, over the observed trace only) is evaluated on the
implementation's behaviour of every history."""
import glob, json, multiprocessing, os, random, sys
import vlib

sys.path.insert(0, os.path.join(vlib.VERIF, "harness", "py"))
import limits_run

HARNESSES = ()
MLS = ("limits",)
THEOREMS = ["C13_limits_never_exceeded", "C13_within_limits", "C13_counters_exact", "C13_invariant",
            "C13_refusal_is_noop_partial", "C13_refusal_effect", "C13_refusal_is_noop_refuted", "C13_full_statement_refuted",
            "C13_refused_exactly_when_exhausted", "C13_refused_iff_exhausted_inv", "C13_unauthenticated_limit_literal_refuted",
            "C13_below_limit_unaffected", "C13_capacity_usable", "C13_free_connection", "C13_free_incomplete_by_disconnect",
            "C13_free_incomplete_by_hello", "C13_free_name", "C13_free_rule", "C13_free_reply_by_answer",
            "C13_free_reply_by_timeout", "C13_free_reply_by_callee_disconnect",
            "C13_size_test", "C13_oversize_only_sender", "C13_fitting_message_harmless",
            # configuration reloads
            "C13_reload_full_statement_refuted", "C13_never_grows_across_reloads", "C13_reload_invariant", "C13_step_never_grows",
            "C13_never_aborts_without_reload", "C13_abort_only_in_accept", "C13_never_aborts_across_reloads",
            "C13_step_never_aborts_across_reloads", "C13_accept_follows_configuration", "C13_accept_follows_flag", "C13_flag_refreshed_when_count_changes",
            "C13_size_limit_follows_configuration_refuted", "C13_oversize_by_own_maximum", "C13_fitting_by_own_maximum",
            "C13_maxmsg_fixed_at_accept", "C13_accepted_gets_configured_maximum"]

NPROC = vlib.NPROC
NAMES = ["com.example.A", "com.example.B", "org.x.y-z", "a.b", "c.d", "e.f"]
UIDS = [0, 1, 2, 65534]
BIG = 64            # "not the limit under test"
MSG = 1024          # default max_message_size of generated configurations


def hx(s):
    b = s.encode("utf-8")
    return b.hex() if b else "-"


def R(c, name, flags=0):
    return "R%d,%s,%d" % (c, hx(name), flags)


def L(c, name):
    return "L%d,%s" % (c, hx(name))


def lim(completed=BIG, per_user=BIG, incomplete=BIG, names=BIG, rules=BIG, replies=BIG, msg=MSG):
    return (completed, per_user, incomplete, names, rules, replies, msg)


# ---------------------------------------------------------------------------
# targeted boundary histories
# ---------------------------------------------------------------------------
class Shadow:
    """just enough bookkeeping for the generators to name connections that exist (never used as an oracle:
    histories are cut where the model calls an event ill-formed or the daemon aborts)"""

    def __init__(self, limits):
        self.lim = tuple(limits)
        self.nxt = 0
        self.alive, self.active, self.authed, self.uid, self.maxmsg = [], set(), set(), {}, {}
        self.watches = True
        self.dead = False

    def n_inc(self):
        return sum(1 for c in self.alive if c not in self.active)

    def recheck(self):
        self.watches = self.n_inc() < self.lim[2]

    def connect(self, u):
        if not self.watches:
            return None
        if self.n_inc() + 1 > self.lim[2]:
            self.dead = True            # the daemon's assertion
            return None
        c = self.nxt
        self.nxt += 1
        self.alive.append(c)
        self.uid[c] = u
        self.maxmsg[c] = self.lim[6]
        self.recheck()
        return c

    def hello(self, c):
        if c in self.alive and c in self.authed and c not in self.active:
            nu = sum(1 for x in self.active if self.uid[x] == self.uid[c])
            if len(self.active) < self.lim[0] and nu < self.lim[1]:
                self.active.add(c)
                self.recheck()

    def drop(self, c):
        if c in self.alive:
            was_active = c in self.active
            self.alive.remove(c)
            self.active.discard(c)
            self.authed.discard(c)
            if not was_active:
                self.recheck()

    def apply(self, e):
        """effect of an already formed event (targeted histories)"""
        k, parts = e[0], e[1:].split(",")
        if k == "C":
            return self.connect(int(parts[0]))
        if k == "G":
            self.lim = tuple(int(x) for x in parts)
            self.recheck()              # bus_context_reload_config re-evaluates the listening flag
            return None
        if k in "QNS":
            return None
        c = int(parts[0])
        if k == "U":
            self.authed.add(c)
        elif k == "H":
            self.hello(c)
        elif k == "D":
            self.drop(c)
        elif k in "KEY" and c not in self.active:
            self.drop(c)
        elif k == "M" and int(parts[1]) > self.maxmsg.get(c, self.lim[6]):
            self.drop(c)
        return None


def G(l):
    return "G" + ",".join(str(x) for x in l)


def with_auth(limits, ev):
    """the basic targeted histories are written without the authentication step: every accepted connection
    authenticates at once; calls carry no REPLY_SERIAL"""
    out, sh = [], Shadow(limits)
    for e in ev:
        if e[0] == "K" and e.count(",") == 3:
            e += ",0"
        out.append(e)
        c = sh.apply(e)
        if e[0] == "C" and c is not None:
            out.append("U%d" % c)
            sh.apply("U%d" % c)
    return out


def gen_targeted():
    return [(l, with_auth(l, ev)) for l, ev in gen_targeted_raw()] + gen_targeted_auth() + gen_targeted_reload() + gen_targeted_padding()


def gen_callee_leaves():
    """a callee disconnects with k calls of one caller outstanding (and j to another callee): the k slots are usable at once -
    the caller can make exactly limit - j further calls, the next one is refused; the caller got k NoReply errors"""
    out = []
    for v in (1, 2, 3, 4):
        for k in range(1, v + 1):
            j = v - k
            ev = ["C0", "U0", "H0", "C0", "U1", "H1", "C0", "U2", "H2", "C0", "U3", "H3"]
            ev += ["K1,2,%d,0,0" % (1000 + i) for i in range(k)] + ["K1,3,%d,0,0" % (1100 + i) for i in range(j)]
            ev += ["K1,0,1200,0,0", "D2"] + ["K1,%d,%d,0,0" % (0 if i % 2 else 3, 1300 + i) for i in range(k)] + ["K1,0,1400,0,0", "Y3,1,1300" if k >= 1 else "N", "K1,0,1401,0,0", "D3", "K1,0,1500,0,0", "N"]
            out.append((lim(replies=v), ev))
    return out


def gen_targeted_padding():
    """the size test at the byte level: total wire length = 16 + header field array + 0..7 bytes of padding + body.  For every
    padding, both byte orders, a registered and an unregistered sender: every length from max-9 to max passes (sender
    still served), then one of max+1..max+9 closes the sender and nobody else"""
    out = []
    msg = 600
    for pad in range(8):
        for bo in "LB":
            for over in range(1, 10):
                fit = ["M%d,%d,%d,%s" % (1, msg - k, pad, bo) for k in (9, 8, 7, 3, 1, 0)]
                ev = ["C0", "U0", "H0", "C1", "U1", "H1", "A0,1"] + fit + ["E1,1", "M1,%d,%d,%s" % (msg + over, pad, bo), "N", "E0,1"]
                out.append((lim(msg=msg), ev))
                ev = ["C0", "U0", "H0", "C1", "U1", "M1,%d,%d,%s" % (msg - over + 1, pad, bo), "M1,%d,%d,%s" % (msg, (pad + 3) % 8, bo),
                      "M1,%d,%d,%s" % (msg + over, pad, bo), "C1", "U2", "H2", "N"]
                out.append((lim(msg=msg, incomplete=1), ev))
    return out


def gen_targeted_reload():
    """the configuration is reloaded in mid-history: every count sits at, one below or one above the new limit"""
    out = []
    for v in (1, 2, 3):
        # completed connections: v+1 registered, limit lowered to v: nobody is thrown out, nobody gets in until two have left
        ev = ["C0", "U0", "H0"]
        for i in range(1, v + 1):
            ev += ["C%d" % UIDS[i % 4], "U%d" % i, "H%d" % i]
        ev += ["C1", "U%d" % (v + 1), G(lim(completed=v)), "H%d" % (v + 1), "N", "D1", "H%d" % (v + 1), "C1", "U%d" % (v + 2)]
        if v > 1:
            ev += ["D2", "H%d" % (v + 1), "H%d" % (v + 2), "N"]
        ev += [G(lim(completed=v + 2)), "H%d" % (v + 1), "H%d" % (v + 2), "N"]
        out.append((lim(completed=v + 1), ev))
        # per user
        ev = ["C0", "U0", "H0"]
        for i in range(1, v + 2):
            ev += ["C1", "U%d" % i, "H%d" % i]
        ev += ["C1", "U%d" % (v + 2), G(lim(per_user=v)), "H%d" % (v + 2), "D1", "H%d" % (v + 2), "D2", "H%d" % (v + 2), "C2", "U%d" % (v + 3), "H%d" % (v + 3), "N"]
        out.append((lim(per_user=v + 1), ev))
        # names / rules / replies: lowered below what a connection holds, then raised again
        ev = ["C0", "U0", "H0", "C0", "U1", "H1"] + [R(1, NAMES[i]) for i in range(v + 1)] + ["A1,%d" % (1 + i % 4) for i in range(v + 1)]
        ev += ["K1,0,%d,0,0" % (1000 + i) for i in range(v + 1)]
        ev += [G(lim(names=v + 1, rules=v, replies=v)), R(1, NAMES[4]), "A1,1", "K1,0,1100,0,0", R(1, NAMES[0], 1), L(1, NAMES[0]), R(1, NAMES[4]),
               "V1,1", "A1,2", "Y0,1,1000", "K1,0,1101,0,0", L(1, NAMES[1]), R(1, NAMES[4]), "V1,%d" % (2 if v > 1 else 1), "A1,3", "Y0,1,1001" if v > 0 else "N", "K1,0,1102,0,0",
               G(lim()), R(1, NAMES[5]), "A1,4", "K1,0,1103,0,0", "N", "E0,1", "E0,2"]
        out.append((lim(names=v + 2, rules=v + 1, replies=v + 1), ev))
        # raised while paused: the reload resumes accepting (before /repo 577eae6: still waiting until the count changed)
        ev = ["C0", "U0", "H0"] + ["C1"] * v + ["C1", G(lim(incomplete=v + 2)), "C1", "C1", "D1", "C1", "C1", "C1", "N"]
        out.append((lim(incomplete=v), ev))
        ev = ["C0", "U0", "H0"] + ["C1"] * v + ["C1", G(lim(incomplete=v + 1)), "C1", "U1", "H1", "C1", "C1", "C1", "N"]
        out.append((lim(incomplete=v), ev))
        # lowered while accepting, but still above the count: fine
        ev = ["C0", "U0", "H0"] + ["C1"] * v + [G(lim(incomplete=v + 1)), "C1", "C1", "D1", "C1", "N"]
        out.append((lim(incomplete=v + 3), ev))
        # lowered to / below the count while accepting: the reload pauses accepting (before /repo 577eae6 the next accept tripped the daemon's assertion)
        ev = ["C0", "U0", "H0"] + ["C1"] * v + [G(lim(incomplete=v)), "C1"]
        out.append((lim(incomplete=v + 2), ev))
        ev = ["C0", "U0", "H0"] + ["C1"] * (v + 1) + [G(lim(incomplete=v)), "N", "C1"]
        out.append((lim(incomplete=v + 2), ev))
        # lowered to the count, then the count falls before anybody connects: no abort
        ev = ["C0", "U0", "H0"] + ["C1"] * (v + 1) + [G(lim(incomplete=v)), "D1", "C1", "D2", "C1", "C1", "N"]
        out.append((lim(incomplete=v + 2), ev))
    # message size: older connections keep the maximum they were accepted with, either way
    for old, new in ((1000, 600), (600, 1000)):
        for size in (600, 601, 800, 1000, 1001):
            ev = ["C0", "U0", "H0", "C1", "U1", "H1", "C2", "U2", G(lim(msg=new)), "C1", "U3", "H3", "M1,%d" % size, "M3,%d" % size, "M2,%d" % size, "N", "M0,600"]
            out.append((lim(msg=old), ev))
    return out


def gen_targeted_auth():
    """histories about authentication and about calls that carry a REPLY_SERIAL"""
    out = []
    for v in (1, 2, 3):
        # authenticated connections that have not said Hello keep occupying the slots
        ev = ["C0", "U0", "H0"]
        for i in range(v):
            ev += ["C%d" % UIDS[i % 4], "U%d" % (i + 1)]
        ev += ["C0", "H1", "C0", "C0", "N"]
        out.append((lim(incomplete=v), ev))
        # unauthenticated ones do too; closing one frees a slot
        ev = ["C0", "U0", "H0"] + ["C1"] * v + ["C1", "D1", "C1", "U%d" % (v + 1), "H%d" % (v + 1), "C0", "N"]
        out.append((lim(incomplete=v), ev))
        # a refused call that carries a REPLY_SERIAL has used up the slot that serial referred to
        ev = ["C0", "U0", "H0", "C0", "U1", "H1", "C0", "U2", "H2", "K2,1,7,0,0"] + ["K1,2,%d,0,0" % (20 + i) for i in range(v)]
        ev += ["K1,2,30,0,7", "K2,1,8,0,0" if v == 1 else "Y1,2,7", "K1,2,31,1,20", "K1,2,32,0,0", "D1"]
        out.append((lim(replies=v), ev))
        ev = ["C0", "U0", "H0", "C0", "U1", "H1", "K1,0,7,0,0", "K0,1,20,0,0", "K0,1,20,0,7", "K1,0,7,0,0", "D1"]
        out.append((lim(replies=max(v, 2)), ev))
    return out


def gen_targeted_raw():
    out = []
    for v in (1, 2, 3, 4):
        # --- max_completed_connections = v: fill, refuse, retry, free by disconnecting, retry
        ev = ["C0", "H0"]
        for i in range(1, v + 2):
            ev += ["C%d" % UIDS[i % 4], "H%d" % i]
        # connections 1..v-1 registered, v and v+1 refused (v == 1: all refused)
        ev += ["H%d" % v, "N"]
        if v > 1:
            ev += ["D1", "H%d" % v, "H%d" % (v + 1), "N", "D%d" % v, "H%d" % (v + 1), "H%d" % (v + 1), "N"]
        else:
            ev += ["D1", "H2", "K2,0,1000,0", "C0", "H3"]
        out.append((lim(completed=v), ev))
        # --- max_connections_per_user = v: user 1 fills its quota, user 2 is unaffected
        ev = ["C0", "H0"]
        ids = []
        for i in range(v + 1):
            ev += ["C1", "H%d" % (1 + i)]
        nxt = v + 2
        ev += ["C2", "H%d" % nxt, "H%d" % (v + 1), "D1", "H%d" % (v + 1), "C1", "H%d" % (nxt + 1), "N"]
        # the control connection's own user
        for i in range(v):
            ev += ["C0", "H%d" % (nxt + 2 + i)]
        ev += ["N"]
        out.append((lim(per_user=v), ev))
        # --- max_incomplete_connections = v: accepting pauses; Hello / disconnect / being thrown out free a slot
        ev = ["C0", "H0"]
        for i in range(v):
            ev += ["C%d" % UIDS[i % 4]]
        ev += ["C1", "C0", "H1", "C2", "C2", "D2" if v > 1 else "D%d" % (v + 1), "C0", "C0"]
        out.append((lim(incomplete=v), ev))
        ev = ["C0", "H0"] + ["C1"] * v + ["C1", "K1,0,1000,0", "C1", "C1", "E%d,1" % (v + 1), "C2", "C2", "N"]
        out.append((lim(incomplete=v), ev))
        # --- max_names_per_connection = v (the unique name counts)
        ev = ["C0", "H0", "C0", "H1"]
        for i in range(v):
            ev.append(R(1, NAMES[i]))
        ev += ["N", R(1, NAMES[0]), R(0, NAMES[0]), R(0, NAMES[5])]
        if v > 1:
            ev += [L(1, NAMES[0]), R(1, NAMES[4]), R(1, NAMES[5]), L(1, NAMES[3]), R(1, NAMES[5]), "Q" + hx(NAMES[4]), "N"]
        out.append((lim(names=v), ev))
        # queued entries count; leaving a queue frees the slot; being replaced with DO_NOT_QUEUE set frees it too
        if v > 1:
            ev = ["C0", "H0", "C0", "H1", "C0", "H2"]
            ev += [R(0, NAMES[0], 0)]
            for i in range(v - 1):
                ev.append(R(1, NAMES[0] if i == 0 else NAMES[i], 0))       # first one is queued behind connection 0
            ev += [R(1, NAMES[5]), "Q" + hx(NAMES[0]), L(1, NAMES[0]), R(1, NAMES[5]), R(1, NAMES[4]),
                   L(1, NAMES[5]), R(1, NAMES[4], 5), R(2, NAMES[4], 2), R(1, NAMES[5]), R(1, NAMES[3]), "Q" + hx(NAMES[4]), "N",
                   "D0" if False else L(0, NAMES[0]), "N"]
            out.append((lim(names=v), ev))
            # handover on disconnect: the waiter becomes owner, its count does not change
            ev = ["C0", "H0", "C0", "H1", "C0", "H2", R(2, NAMES[0], 0), R(1, NAMES[0], 0)]
            for i in range(1, v - 1):
                ev.append(R(1, NAMES[i]))
            ev += [R(1, NAMES[5]), "D2", R(1, NAMES[5]), "Q" + hx(NAMES[0]), L(1, NAMES[0]), R(1, NAMES[5]), "N"]
            out.append((lim(names=v), ev))
        # --- max_match_rules_per_connection = v
        ev = ["C0", "H0", "C0", "H1"]
        for i in range(v):
            ev.append("A1,%d" % (1 if i < 2 else i))
        ev += ["A1,4", "A1,x", "E0,1", "V1,3" if v < 4 else "V1,4", "V1,1", "E0,1", "A1,x", "A1,4", "A1,2", "E0,4", "E0,1", "A0,1", "E1,1"]
        ev += ["D1", "C0", "H2"] + ["A2,%d" % (i + 1) for i in range(v + 1)] + ["E0,1", "E0,%d" % v]
        out.append((lim(rules=v), ev))
        # --- max_replies_per_connection = v
        ev = ["C0", "H0", "C0", "H1", "C0", "H2"]
        for i in range(v):
            ev.append("K1,%d,%d,0" % (0 if i % 2 == 0 else 2, 1000 + i))
        ev += ["K1,0,1100,0", "K1,0,1101,1", "K2,0,1000,0", "Y0,1,1000", "K1,2,1102,0", "K1,2,1103,0", "Y0,1,1100",
               "K1,0,1102,0" if v > 1 else "K1,0,1104,0", "D2", "K1,0,1105,0", "K1,0,1106,0", "D0" if False else "Y0,2,1000", "D1", "K0,1,1000,0"]
        out.append((lim(replies=v), ev))
        # same serial to the same callee twice; to another callee it is a different call
        ev = ["C0", "H0", "C0", "H1", "C0", "H2", "K1,0,1000,0", "K1,0,1000,0", "K1,2,1000,0", "K1,2,1001,0", "Y0,1,1000", "K1,0,1000,0", "K1,0,1002,0"]
        out.append((lim(replies=max(v, 2)), ev))
    # --- message size
    for msg in (600, 1024, 4096):
        for size in (msg - 8, msg - 1, msg, msg + 1, msg + 7, msg + 8, msg + 9, 3 * msg):
            ev = ["C0", "H0", "C1", "H1", "C2", R(1, NAMES[0]), "A0,1", "K0,1,1000,0", "M1,%d" % size, "N", "E0,1", "C0", "H%d" % 3, "Q" + hx(NAMES[0])]
            out.append((lim(msg=msg), ev))
            ev = ["C0", "H0", "C1", "H1", "C2", "M2,%d" % size, "H2", "M0,%d" % (msg - 3), "N"]
            out.append((lim(msg=msg, incomplete=1), ev))
    return out


TIMEOUT_LEG = [
    # (limits, reply_timeout ms, events): one outstanding call at a time, so that expiry order cannot matter
    (lim(replies=1), 1500, ["C0", "U0", "H0", "C0", "U1", "H1", "K1,0,1000,0,0", "K1,0,1001,0,0", "T1,1000", "K1,0,1002,0,0", "K1,0,1003,0,0", "Y0,1,1002", "K1,0,1004,0,0"]),
]


# ---------------------------------------------------------------------------
# random histories
# ---------------------------------------------------------------------------
def gen_random(rnd, length):
    small = lambda: rnd.choice((1, 1, 2, 2, 2, 3, 3, 4))
    mode = rnd.random()
    if mode < 0.55:
        lv = [small() if rnd.random() < 0.6 else BIG for _ in range(6)]
    elif mode < 0.9:
        lv = [BIG] * 6
        for k in rnd.sample(range(6), rnd.choice((1, 2))):
            lv[k] = small()
    else:
        lv = [small() for _ in range(6)]
    if lv[2] == BIG:
        lv[2] = rnd.choice((2, 3, 4, BIG))
    msg = rnd.choice((600, 777, 1024))
    limits = tuple(lv) + (msg,)
    names = rnd.sample(NAMES, rnd.choice((2, 3, 4)))
    sh = Shadow(limits)
    ev = []

    def emit(e):
        ev.append(e)
        return sh.apply(e)
    emit("C0"); emit("U0"); emit("H0")
    pending = []              # (caller, callee, serial) believed outstanding
    next_serial = {}

    def forget(c):
        pending[:] = [p for p in pending if p[0] != c and p[1] != c]

    reloads = rnd.random() < 0.4
    for _ in range(length):
        if sh.dead:
            break
        if reloads and rnd.random() < 0.08:
            nl = list(sh.lim)
            for k in rnd.sample(range(7), rnd.choice((1, 1, 2, 3))):
                nl[k] = rnd.choice((600, 777, 1024)) if k == 6 else (small() if rnd.random() < 0.75 else BIG)
            emit(G(nl))
            continue
        r = rnd.random()
        act = sorted(sh.active)
        authed_inactive = [c for c in sh.alive if c in sh.authed and c not in sh.active]
        unauth = [c for c in sh.alive if c not in sh.authed]
        if r < 0.13:
            u = rnd.choice(UIDS) if rnd.random() < 0.8 else rnd.choice(UIDS[:2])
            c = emit("C%d" % u)
            if c is not None and rnd.random() < 0.8:
                emit("U%d" % c)
        elif r < 0.16:
            if unauth:
                emit("U%d" % rnd.choice(unauth))
        elif r < 0.27:
            cands = authed_inactive if authed_inactive and rnd.random() < 0.9 else [c for c in sh.alive if c in sh.authed]
            emit("H%d" % rnd.choice(cands))
        elif r < 0.33:
            cands = [c for c in sh.alive if c != 0]
            if cands:
                c = rnd.choice(cands)
                emit("D%d" % c)
                forget(c)
        elif r < 0.47:
            c = rnd.choice(act) if rnd.random() < 0.95 or not authed_inactive else rnd.choice(authed_inactive)
            name = rnd.choice(names) if rnd.random() < 0.95 else rnd.choice(("foo", ":1.0", "org.freedesktop.DBus"))
            emit(R(c, name, rnd.randrange(8)))
        elif r < 0.54:
            emit(L(rnd.choice(act), rnd.choice(names)))
        elif r < 0.66:
            c = rnd.choice(act) if rnd.random() < 0.95 or not authed_inactive else rnd.choice(authed_inactive)
            rule = "x" if rnd.random() < 0.08 else str(rnd.choice((1, 1, 2, 3, 4)))
            emit("A%d,%s" % (c, rule))
        elif r < 0.71:
            emit("V%d,%s" % (rnd.choice(act), "x" if rnd.random() < 0.05 else str(rnd.choice((1, 2, 3, 4)))))
        elif r < 0.85:
            c = rnd.choice(act) if rnd.random() < 0.96 or not authed_inactive else rnd.choice(authed_inactive)
            d = rnd.choice(act) if rnd.random() < 0.95 else rnd.randrange(sh.nxt + 1)
            if pending and rnd.random() < 0.06:
                c, d, s = rnd.choice(pending)           # same serial again
                if c not in sh.active:
                    continue
            else:
                s = next_serial.get(c, 1000)
                next_serial[c] = s + 1
            nr = rnd.random() < 0.1
            rs = 0
            if rnd.random() < 0.08:
                back = [p for p in pending if p[0] == d and p[1] == c]
                rs = rnd.choice(back)[2] if back and rnd.random() < 0.8 else rnd.choice((1000, 1001, 5003))
            was_active = c in sh.active
            emit("K%d,%d,%d,%d,%d" % (c, d, s, 1 if nr else 0, rs))
            if not was_active:
                forget(c)
            elif d in sh.active:
                if rs:
                    pending[:] = [p for p in pending if p != (d, c, rs)]
                if not nr and (c, d, s) not in pending and sum(1 for p in pending if p[0] == c) < sh.lim[5]:
                    pending.append((c, d, s))
        elif r < 0.92:
            if pending and rnd.random() < 0.93:
                p = rnd.choice(pending)
                emit("Y%d,%d,%d" % (p[1], p[0], p[2]))
                pending.remove(p)
            else:
                emit("Y%d,%d,%d" % (rnd.choice(act), rnd.choice(act), rnd.choice((1000, 1001, 5007))))
        elif r < 0.96:
            emit("E%d,%d" % (rnd.choice(act), rnd.choice((1, 2, 3, 4))))
        elif r < 0.985:
            c = rnd.choice([x for x in sh.alive if x in sh.authed])
            size = rnd.choice((sh.maxmsg[c], sh.lim[6])) + rnd.choice((-9, -8, -1, 0, 0, 1, 1, 7, 8, 9, 1000))
            if c == 0:
                size = min(size, sh.maxmsg[0])
            gone = size > sh.maxmsg[c]
            emit("M%d,%d,%d,%s" % (c, size, rnd.randrange(8), rnd.choice("LB")))
            if gone:
                forget(c)
        else:
            emit(rnd.choice(("N", "Q" + hx(rnd.choice(names)))))
    if not sh.dead:
        for n in names:
            ev.append("Q" + hx(n))
        ev.append("N")
        for tg in (1, 2, 3, 4):
            ev.append("E0,%d" % tg)
    return (limits, ev)


def load_corpus():
    out = []
    for p in sorted(glob.glob(os.path.join(vlib.VERIF, "corpus", "C13", "*.json"))):
        for d in json.load(open(p)):
            out.append((tuple(d["limits"]), list(d["events"])))
    return out


# ---------------------------------------------------------------------------
# the counting oracle: the property text evaluated on an observed trace
# ---------------------------------------------------------------------------
class Oracle:
    """Tracks, from observed outcomes only, how many connections are registered (per user), accepted but not
    registered, and per connection the names held (owned or queued, plus the unique name), the match rules and the calls
    awaiting a reply; says for each observed outcome whether the property text allows it."""

    def __init__(self, limits):
        self.lim = limits
        self.open = {}            # conn -> uid
        self.registered = set()
        self.names = {}           # conn -> {name: do_not_queue flag of its latest request}
        self.rules = {}           # conn -> list of rules
        self.calls = []           # (caller, callee, serial)
        self.nconn = 0
        self.authed = set()
        self.known = []           # recorded deviations seen: (finding id, event index)
        self.prev = {}            # count of every resource after the previous event
        self.stale = False        # the limits were reloaded after the number of unregistered connections last changed
        self.accept_max = {}      # conn -> max_message_size configured when it was accepted

    def n_user(self, u):
        return sum(1 for c in self.registered if self.open[c] == u)

    def n_incomplete(self):
        return sum(1 for c in self.open if c not in self.registered)

    def n_unauthenticated(self):
        return sum(1 for c in self.open if c not in self.authed)

    def held(self, c):
        return (1 if c in self.registered else 0) + len(self.names.get(c, {}))

    def n_calls(self, c):
        return sum(1 for p in self.calls if p[0] == c)

    def counts(self):
        d = {("registered connections", "max_completed_connections", 0): len(self.registered),
             ("unauthenticated connections", "max_incomplete_connections", 2): self.n_unauthenticated()}
        for u in set(self.open[c] for c in self.registered):
            d[("registered connections of user %d" % u, "max_connections_per_user", 1)] = self.n_user(u)
        for c in self.registered:
            d[("names held by connection %d (owned or queued, unique name included)" % c, "max_names_per_connection", 3)] = self.held(c)
            d[("match rules of connection %d" % c, "max_match_rules_per_connection", 4)] = len(self.rules.get(c, []))
            d[("calls of connection %d awaiting a reply" % c, "max_replies_per_connection", 5)] = self.n_calls(c)
        return d

    def over_limit(self):
        """clause 1 of the property on the counts the trace has established so far: no count is above its limit -
        except that a count which a reload left above a lowered limit (recorded deviation C13-D3) may stay, but not grow"""
        bad = []
        now = self.counts()
        for key, n in now.items():
            what, lname, idx = key
            if n > max(self.lim[idx], self.prev.get(key, 0)):
                bad.append("%d %s (%s=%d)" % (n, what, lname, self.lim[idx]))
        self.prev = now
        return bad

    def reload(self, limits):
        old_inc = self.lim[2]
        self.lim = tuple(limits)
        if self.lim[2] != old_inc:
            self.stale = True
        for key, n in self.counts().items():
            if n > self.lim[key[2]]:
                self.known.append("C13-D3")
                break

    def gone(self, c):
        if c in self.open and c not in self.registered:
            self.stale = False
        self.open.pop(c, None)
        self.authed.discard(c)
        self.registered.discard(c)
        self.names.pop(c, None)
        self.rules.pop(c, None)
        self.calls = [p for p in self.calls if p[0] != c and p[1] != c]

    def step(self, ev, result):
        """returns a list of complaints (empty: allowed)"""
        bad = []
        kind, parts = ev[0], ev[1:].split(",")
        per = {}
        for tok in result.split(","):
            if ">" in tok and tok.split(">", 1)[0].isdigit():
                per.setdefault(int(tok.split(">", 1)[0]), []).append(tok.split(">", 1)[1])
        closed = [c for c, ts in per.items() if "closed" in ts]
        # name signals seen by anybody: losing a name with DO_NOT_QUEUE set means leaving the queue
        for c, ts in per.items():
            for t in ts:
                if t.startswith("lost:S") and c in self.names:
                    n = t[6:]
                    if self.names[c].get(n):
                        self.names[c].pop(n, None)
                if t.startswith("noreply:"):
                    s = int(t[8:])
                    for p in self.calls:
                        if p[0] == c and p[2] == s:
                            self.calls.remove(p)
                            break
        if kind == "G":
            self.reload([int(x) for x in parts])
            return bad
        if kind == "C":
            if "accepted" in result:
                if self.n_incomplete() >= self.lim[2]:
                    bad.append("a connection was accepted while %d not yet registered connections exist (max_incomplete_connections=%d)" % (self.n_incomplete(), self.lim[2]))
                self.open[self.nconn] = int(parts[0])
                self.accept_max[self.nconn] = self.lim[6]
                self.nconn += 1
                self.stale = False
            elif self.n_incomplete() < self.lim[2]:
                bad.append("a connection was not accepted although only %d unregistered connections exist (max_incomplete_connections=%d)" % (self.n_incomplete(), self.lim[2]))
            elif self.n_unauthenticated() < self.lim[2]:
                # the literal reading ("not-yet-authenticated connections"): recorded deviation C13-D1
                self.known.append("C13-D1")
            bad += self.over_limit()
            return bad
        if kind in "QNS":
            return bad
        c = int(parts[0])
        mine = per.get(c, [])
        refused = "err:LimitsExceeded" in mine
        if kind == "U":
            if "authok" in mine:
                self.authed.add(c)
        elif kind == "H":
            u = self.open.get(c)
            if any(t.startswith("hello:") for t in mine):
                if len(self.registered) >= self.lim[0]:
                    bad.append("Hello succeeded with %d registered connections (max_completed_connections=%d)" % (len(self.registered), self.lim[0]))
                if self.n_user(u) >= self.lim[1]:
                    bad.append("Hello succeeded with %d registered connections of user %d (max_connections_per_user=%d)" % (self.n_user(u), u, self.lim[1]))
                self.registered.add(c)
                self.stale = False
            elif refused and c not in self.registered and len(self.registered) < self.lim[0] and self.n_user(u) < self.lim[1]:
                bad.append("Hello refused with LimitsExceeded below both connection limits")
        elif kind == "D":
            self.gone(c)
        elif kind == "R":
            name, flags = parts[1], int(parts[2])
            codes = [t for t in mine if t.startswith("reply:")]
            before = self.held(c)
            if codes:
                code = int(codes[0][6:])
                if code in (1, 2, 4):
                    fresh = name not in self.names.get(c, {})
                    if fresh and before >= self.lim[3]:
                        bad.append("RequestName gave connection %d its name number %d (max_names_per_connection=%d)" % (c, before + 1, self.lim[3]))
                    self.names.setdefault(c, {})[name] = bool(flags & 4)
                elif code == 3:
                    self.names.get(c, {}).pop(name, None)
            elif refused and name in self.names.get(c, {}):
                bad.append("RequestName refused with LimitsExceeded for a name connection %d already holds (the request would not add a name)" % c)
            elif refused and before < self.lim[3]:
                bad.append("RequestName refused with LimitsExceeded although connection %d holds %d names (max_names_per_connection=%d)" % (c, before, self.lim[3]))
        elif kind == "L":
            if "reply:1" in mine:
                self.names.get(c, {}).pop(parts[1], None)
        elif kind == "A":
            n = len(self.rules.get(c, []))
            if "ack" in mine:
                if n >= self.lim[4]:
                    bad.append("AddMatch gave connection %d its rule number %d (max_match_rules_per_connection=%d)" % (c, n + 1, self.lim[4]))
                self.rules.setdefault(c, []).append(parts[1])
            elif refused and n < self.lim[4]:
                bad.append("AddMatch refused with LimitsExceeded although connection %d has %d rules (max_match_rules_per_connection=%d)" % (c, n, self.lim[4]))
        elif kind == "V":
            if "ack" in mine and parts[1] in self.rules.get(c, []):
                self.rules[c].remove(parts[1])
        elif kind == "K":
            d, s, nr, rs = int(parts[1]), int(parts[2]), parts[3] == "1", int(parts[4])
            delivered = ("call:%d:%d" % (c, s)) in per.get(d, [])
            if rs and c in self.registered and d in self.registered and (d, c, rs) in self.calls:
                # the message counts as c's answer to d's call rs whatever its type (as C09 records); if the
                # message is then refused, the slot is gone all the same: recorded deviation C13-D2 (= C09 F7b)
                self.calls.remove((d, c, rs))
                if not delivered:
                    self.known.append("C13-D2")
            n = self.n_calls(c)
            if delivered and not nr:
                if n >= self.lim[5]:
                    bad.append("a call of connection %d was passed on while %d of its calls await a reply (max_replies_per_connection=%d)" % (c, n, self.lim[5]))
                self.calls.append((c, d, s))
            elif refused and n < self.lim[5]:
                bad.append("call refused with LimitsExceeded although only %d calls of connection %d await a reply (max_replies_per_connection=%d)" % (n, c, self.lim[5]))
        elif kind == "Y":
            to, s = int(parts[1]), int(parts[2])
            if ("ret:%d:%d" % (c, s)) in per.get(to, []):
                for p in self.calls:
                    if p == (to, c, s):
                        self.calls.remove(p)
                        break
        elif kind == "M":
            size = int(parts[1])
            own = self.accept_max.get(c, self.lim[6])
            if (size > self.lim[6]) != (c in closed):
                if own != self.lim[6] and (size > own) == (c in closed):
                    # judged by the maximum configured when the connection was accepted: recorded deviation C13-D5
                    self.known.append("C13-D5")
                elif c in closed:
                    bad.append("a message of %d bytes (max_message_size=%d) got its sender disconnected" % (size, self.lim[6]))
                else:
                    bad.append("a message of %d bytes (max_message_size=%d) did not get its sender disconnected" % (size, self.lim[6]))
            closed_others = [x for x in closed if x != c]
            if closed_others:
                bad.append("connections %s were disconnected because of a message of connection %d" % (closed_others, c))
        # NameAcquired for a name the trace has not shown the connection to hold: it holds it now
        for x, ts in per.items():
            for tk in ts:
                if tk.startswith("acq:S") and x in self.registered and tk[5:] not in self.names.get(x, {}):
                    self.names.setdefault(x, {})[tk[5:]] = False
        bad += self.over_limit()
        for x in closed:
            if kind in "KEY" and x == c and c not in self.registered:
                pass                  # an unregistered sender talking to a peer is thrown out: not this property's business
            elif kind == "M" and x == c:
                pass
            else:
                bad.append("connection %d was closed by the bus at event %s" % (x, ev))
            self.gone(x)
        return bad


def all_known():
    """recorded findings of this property (known-findings.json only)"""
    return {k["id"]: k for k in vlib.load_known("C13")}


def replay_of(case, step, impl, model):
    limits, ev, rt = case
    d = {"limits": list(limits), "limit_names": limits_run.LIMIT_NAMES, "events": ev, "reply_timeout": rt, "failing_step": step,
         "event": ev[step] if step is not None and step < len(ev) else None,
         "how": "python3 harness/py/limits_run.py build/dbus/bin/dbus-daemon %s %s %s" % (",".join(map(str, limits)), rt if rt is not None else "-", " ".join(ev))}
    if step is not None and impl is not None and step < len(impl):
        d["implementation"] = impl[step]
    if step is not None and model is not None and step < len(model):
        d["model"] = model[step]
    return d


def model_lines(cases):
    return ["run %s %s" % (",".join(map(str, l)), " ".join(limits_run.model_events(ev))) for l, ev, rt in cases]


def run(ctx):
    rep, tier, info = ctx["rep"], ctx["tier"], ctx["info"]
    rnd = random.Random(ctx["seed"])
    quick = tier == "quick"
    known = all_known()
    cases, origin = [], {}

    def add(kind, cs):
        for c in cs:
            origin[len(cases)] = kind
            cases.append(c if len(c) == 3 else (c[0], c[1], None))
    if ctx.get("replay"):
        d = json.load(open(ctx["replay"]))
        d = d.get("replay", d)
        add("replay", [(tuple(d["limits"]), list(d["events"]), d.get("reply_timeout"))])
    else:
        add("corpus", load_corpus())
        targeted = gen_targeted()
        add("targeted", targeted)
        # the histories with calls and departures again under a FINITE reply_timeout (so long that nothing expires by time
        # during the history): the expiry timer of the pending-reply list is then running while a callee disconnects
        add("targeted-finite-timeout", [(l, ev, rnd.choice((300000, 120000, 3600000))) for l, ev in targeted
                                        if any(e[0] == "K" for e in ev) and any(e[0] == "D" for e in ev)])
        add("callee-leaves", [(l, ev, rt) for l, ev in gen_callee_leaves() for rt in (None, 300000)])
        add("timeout", [(l, ev, rt) for l, rt, ev in TIMEOUT_LEG])
        rand = [gen_random(rnd, rnd.choice((15, 25, 40))) for _ in range(1500 if quick else 30000)]
        add("random", [(l, ev, 300000 if i % 3 == 0 else None) for i, (l, ev) in enumerate(rand)])
    # pass 1: cut every history before the first event the model calls ill-formed (generator slack)
    model, mcr = vlib.run_lines(info["model_limits"], model_lines(cases))
    for i, m in enumerate(model):
        if m.startswith(("?", "!")):
            continue
        blocks = m.split(" | ")
        for j, b in enumerate(blocks):
            if "FAULT" in b:
                cases[i] = (cases[i][0], cases[i][1][:j], cases[i][2])
                break
            if "ABORT" in b:
                cases[i] = (cases[i][0], cases[i][1][:j + 1], cases[i][2])      # the daemon is gone after this event
                break
    lines = model_lines(cases)
    model, mcr = vlib.run_lines(info["model_limits"], lines)
    for line, err in mcr:
        rep.violation("extracted model failed on `%s`: %s" % (line[:200], err[-300:]), {"input": line, "names": "model driver"}, found_input=False)
    exe = info["daemon"]
    jobs = [(exe, l, ev, rt) for l, ev, rt in cases]
    with multiprocessing.get_context("fork").Pool(NPROC) as pool:
        impl = pool.map(limits_run.worker, jobs, chunksize=2)

    stats = {"events": 0, "refusals": {}, "not_accepted": 0, "closed_by_bus": 0, "noreply": 0, "probes": 0, "kinds": {}, "recorded_deviations": {}}
    nontrivial = set()
    validated = 0
    for idx, (case, mline, (ires, ierr, ibad)) in enumerate(zip(cases, model, impl)):
        limits, ev, rt = case
        if mline.startswith(("?", "!")):
            rep.violation("model driver failed on history %s: %s" % (" ".join(ev)[:200], mline[:200]), {"input": lines[idx], "names": "ml/limits/driver.ml"}, found_input=False)
            continue
        mres = [limits_run.group(b.split(",")) if b != "-" else "-" for b in mline.split(" | ")] if ev else []
        abort_at = next((i for i, b in enumerate(mres) if "ABORT" in b), None)
        if ibad:
            rep.violation("dbus-daemon crashed / sanitizer report during history %s: %s" % (" ".join(ev)[:300], ibad[-700:]),
                          dict(replay_of(case, len(ires), ires, None), stderr=ibad))
            continue
        # the oracle runs on the implementation's trace
        orc = Oracle(limits)
        complaints = None
        for i, e in enumerate(ev[:len(ires)]):
            c = orc.step(e, ires[i])
            if c and complaints is None:
                complaints = (i, c)
        bad_step = None
        for i, e in enumerate(ev):
            if i >= len(ires):
                bad_step = i
                break
            if e[0] == "S":
                continue
            if ires[i] != mres[i]:
                bad_step = i
                break
        if bad_step is not None:
            i = bad_step
            if i >= len(ires):
                rep.violation("history [%s] limits %s: the implementation side stopped at event %d `%s`: %s" % (" ".join(ev)[:300], limits, i, ev[i], ierr),
                              replay_of(case, i, ires, mres))
                continue
            what = "event %d `%s` of history [%s] (limits %s): implementation %s | model %s" % (i, ev[i], " ".join(ev[:i + 1])[-400:], limits, ires[i], mres[i])
            if complaints is not None:
                # the oracle reads the daemon's trace only: an objection anywhere in it (at, before or after the first
                # step where the model disagrees) is a property violation with this history as the failing input
                j = complaints[0]
                rep.violation("event %d `%s` of history [%s] (limits %s): implementation %s -- %s (first disagreement with the model at event %d `%s`: implementation %s | model %s)" % (
                    j, ev[j], " ".join(ev[:j + 1])[-400:], limits, ires[j], "; ".join(complaints[1]), i, ev[i], ires[i], mres[i]),
                    replay_of(case, j, ires, mres))
            else:
                rep.violation(what + " -- the counting oracle has no objection to the implementation's behaviour; the model is off",
                              dict(replay_of(case, i, ires, mres), names="correspondence Limits.lstep vs dbus-daemon"), found_input=False)
            continue
        if ierr:
            rep.violation("history [%s]: implementation side error after the last event: %s" % (" ".join(ev)[:200], ierr), replay_of(case, len(ev) - 1, ires, mres))
            continue
        if complaints is not None:
            # implementation = model, but the property text is not met: would have to be a recorded finding
            rep.violation("event %d `%s` of [%s] (limits %s): code and model agree (%s) but %s" % (
                complaints[0], ev[complaints[0]], " ".join(ev[:complaints[0] + 1])[-300:], limits, ires[complaints[0]], "; ".join(complaints[1])),
                replay_of(case, complaints[0], ires, mres))
            continue
        unrecorded = [k for k in orc.known if k not in known]
        if unrecorded:
            rep.violation("history [%s] (limits %s): code and model agree, the property text is not met (%s) and no such finding is recorded" % (
                " ".join(ev)[:300], limits, ", ".join(sorted(set(unrecorded)))), replay_of(case, None, ires, mres))
            continue
        for k in orc.known:
            rep.known(known[k], {"limits": list(limits), "events": ev[:40]})
            stats["recorded_deviations"][k] = stats["recorded_deviations"].get(k, 0) + 1
        validated += 1
        interesting = False
        for i, e in enumerate(ev):
            stats["events"] += 1
            stats["kinds"][e[0]] = stats["kinds"].get(e[0], 0) + 1
            r = ires[i]
            if "err:LimitsExceeded" in r:
                stats["refusals"][e[0]] = stats["refusals"].get(e[0], 0) + 1
                interesting = True
            if "waiting" in r:
                stats["not_accepted"] += 1
                interesting = True
            if "closed" in r:
                stats["closed_by_bus"] += 1
                interesting = True
            stats["noreply"] += r.count("noreply:")
            if e[0] in "QN":
                stats["probes"] += 1
        if interesting:
            nontrivial.add((limits, tuple(ev)))
    rep.violations.sort(key=lambda v: not v[2])      # failing inputs first (only the first ten are printed)
    dist = {}
    for i in range(len(cases)):
        dist[origin[i]] = dist.get(origin[i], 0) + 1
    stepn = max(1, len(cases) // 10)
    rep.coverage.update({
        "evaluations": len(cases), "distinct_nontrivial": len(nontrivial),
        "rule": "corpus (incl. the two refutation witnesses); targeted fill / refuse / free / refill histories for each of the six count limits at values 1-4 (free by release, leaving a queue, "
                "replacement with DO_NOT_QUEUE, RemoveMatch, reply, callee or caller disconnect, Hello, disconnect, being thrown out), messages of "
                "max-8..max+9 and 3*max bytes by registered and unregistered senders; every header padding 0..7 x both byte orders x lengths max-9..max+9 (288 histories); authenticated-but-unregistered and unauthenticated connections holding "
                "incomplete slots; calls carrying a REPLY_SERIAL refused at the limit / as duplicates; configuration reloads in mid-history (ReloadConfig after rewriting the file) "
                "that put every count at, one below and one above the new limit, raise / lower max_incomplete_connections while accepting is paused / on (incl. the "
                "daemon's assertion), change max_message_size under old and new connections; a callee leaving with k of the caller's calls outstanding, under the default (infinite) and under finite reply_timeouts (timer running); a third of the random and all call/departure targeted histories also under reply_timeout=120000..3600000 ms; one reply-timeout history; random histories of 15-40 events (40% with reloads) "
                "over up to ~8 connections of 4 users, 2-4 names, 4 match rules, limits drawn from 1-4 or 64, max_message_size 600/777/1024; "
                "non-trivial = at least one LimitsExceeded refusal, not-accepted connection or bus-initiated disconnection; distinct = distinct (limits, events)",
        "samples": [{"limits": list(cases[i][0]), "events": cases[i][1][:40], "implementation_last": (impl[i][0] or ["-"])[-1]} for i in range(0, len(cases), stepn)][:10],
        "input_distribution": dist, "traces_validated_against_impl": validated, "events_compared": stats["events"],
        "event_kinds": stats["kinds"], "limit_refusals_by_event_kind": stats["refusals"], "connections_not_accepted": stats["not_accepted"],
        "bus_initiated_disconnections": stats["closed_by_bus"], "daemon_aborts_predicted_and_seen": stats.get("daemon_aborts_predicted", 0), "noreply_errors": stats["noreply"], "probes": stats["probes"], "recorded_deviations_seen": stats["recorded_deviations"],
        "histories_under_finite_reply_timeout": sum(1 for c in cases if c[2] is not None), "disagreements_checked": len(rep.violations), "exhaustive": False,
        "explanation": "PROVED (Coq, all histories, all limit values >= 1): the model's counters equal the true counts and stay within the limits (also the number of "
                       "unauthenticated connections); a plain request answered LimitsExceeded / a connection not accepted leaves the model state unchanged (refuted for method calls that "
                       "carry a REPLY_SERIAL: C13-D2, exact effect proved); refused exactly when the demanded resource's true count is at its limit (the literal 'unauthenticated' reading "
                       "refuted: C13-D1); limits influence a step only through refusal; each way of freeing lowers the true count by one and what is not exhausted is not refused; "
                       "an oversize message removes only its sender.  With reloads in mid-history: no count grows past the limit in force (the literal 'within the configured limits' "
                       "refuted: C13-D3); the loaders' maxima are stale (C13-D5; the listening flag is re-evaluated by a reload since /repo 577eae6: no assertion abort, accept follows the limits in force - proved).  EXPLORED (correspondence, not proved): that dbus-daemon behaves like the model - messages per socket in order "
                       "after every event, ListQueuedOwners / ListNames probes, signal delivery; the reply timeout (one timed history), the pause of accept() (observed through "
                       "the absence of an answer to AUTH after 8 main-loop round trips), EOF on the oversize sender only.  Not covered: OOM paths, max_incoming_bytes / "
                       "max_outgoing_bytes flow control, activation, file descriptors.",
    })
    rep.assumptions = [
        "coq/Limits/Limits.v is hand-written after bus/connection.c, bus/driver.c, bus/bus.c, bus/dispatch.c; names go through the C04 model coq/Registry/Registry.v; "
        "the size test is the C01/C11 loader model Wire.Message.have_message with the generated DBUS_MAXIMUM_MESSAGE_LENGTH",
        "permissive <policy> (user=*, own=*, send/receive all), no SELinux/AppArmor, no activation, auth_timeout raised to 600 s; several users = the harness process "
        "switching its effective uid around connect() (sandbox runs as root)",
        "a callee's disconnection and the zero-interval expiry of the calls it had not answered are one model step; a reply timeout is a model event",
        "harness/py/limits_run.py and harness/py/rawbus.py are trusted glue; synchronisation by round trips on every socket; 'not accepted' is observed as "
        "no answer to the AUTH line after 8 round trips on the control connection",
    ]
