"""C05 — unicast messages reach exactly the current owner, once, in order (permissive policy, well-known names)."""
import os, random, sys
import vlib
sys.path.insert(0, os.path.join(vlib.VERIF, "harness", "py"))
import routing_check as rc
import routing_gen as rg

MLS = ("routing",)
HARNESSES = ()
THEOREMS = ["C05_exactly_once", "C05_copies_only_to_eavesdroppers", "C05_copies_once", "C05_no_third_party_intact", "C05_only_sends_forward", "C05_delivered", "C05_fifo",
            "C05_undeliverable_no_owner", "C05_refused_opens_nothing", "C05_undeliverable",
            "C05_close_keeps_earlier_steps", "C05_close_cleans_up",
            "C05_fifo_held", "C05_fifo_held_inv", "C05_held_only_while_unowned",
            "C05_driver_call_copies_only_to_eavesdroppers", "C05_driver_call_copies_once", "C05_driver_step_output"]

NONTRIVIAL = {"call-delivered", "call-delivered-noreply", "signal-delivered", "reply-delivered", "other-delivered",
              "no-owner-ServiceUnknown", "no-owner-NameHasNoOwner", "limit-refused", "duplicate-serial-refused", "fd-refused"}


def burst_cases(rnd, n):
    """per-(sender, recipient) FIFO: one sender writes k messages to the same destination in successive events while the
    owner of the name changes in between (the recipient side is read only at the end of each step, so socket-level
    ordering within the recipient's stream is what is compared)"""
    cases = []
    for i in range(n):
        ev = ["C0", "C0", "C0", "R.1.20.0.%d" % rnd.choice((0, 1)), "R.2.21.0.%d" % rnd.choice((0, 2, 3))]
        tok = 0
        for k in range(rnd.randint(4, 9)):
            tok += 1
            ty = rnd.choice("csre")
            ev.append("S.0.%s.%d.%d.%d.%d.n0.0.%d" % (ty, rnd.random() < 0.5, rnd.random() < 0.5, 30 + tok, 5 if ty in "re" else 0, tok))
            r = rnd.random()
            if r < 0.15:
                ev.append("L.%d.%d.0" % (rnd.choice((1, 2)), 60 + tok))
            elif r < 0.3:
                ev.append("R.%d.%d.0.%d" % (rnd.choice((1, 2)), 60 + tok, rnd.choice((0, 1, 2, 3, 4, 6, 7))))
            elif r < 0.36:
                ev.append("D.%d" % rnd.choice((1, 2)))
        cases.append(("pipe-burst%d" % i, (0, 50, -1), ev))
    return cases


def close_cases(rnd, n):
    """fire and forget: one connection writes a burst of 90-130 unicast messages (tens of kB; calls with NO_REPLY_EXPECTED, a few
    reply-expecting calls, signals; to unique and well-known names of other connections) in ONE sendall() and closes its socket at
    once.  Everything that was written completely must be processed as if the sender were still there: exactly once, in
    order, intact; then the sender's state is cleaned up (later events check that)."""
    cases = []
    for i in range(n):
        ev = ["C0", "C0", "C0", "C0", "R.1.20.0.0", "R.2.21.1.%d" % rnd.choice((0, 4))]
        if rnd.random() < 0.5:
            ev.append("M.3.22.1.%s.x.x" % rnd.choice("xsc"))
        if rnd.random() < 0.3:
            ev.append("R.2.23.0.0")              # queued behind 1
        tok = 0
        for k in range(rnd.randint(90, 130)):
            tok += 1
            ty = rnd.choice("cccss")
            nr = 1 if ty == "s" or rnd.random() < 0.9 else 0
            # only destinations that have an owner other than the sender: anything the bus would write back to the closed
            # socket (error reply, self-send, eavesdropped copy) fails with EPIPE, and the bus then drops the connection
            # together with its unread input -- timing dependent, see notes/C05.md
            dst = rnd.choice(("u1", "u1", "u2", "n0", "n0", "n1"))
            ev.append("S.0.%s.%d.%d.%d.0.%s.0.%d" % (ty, nr, rnd.random() < 0.5, 100 + tok, dst, tok))
        ev.append("D.0")
        for k in range(rnd.randint(1, 4)):
            tok += 1
            a, b = rnd.sample((1, 2, 3), 2)
            ev.append("S.%d.%s.1.0.%d.0.%s.0.%d" % (a, rnd.choice("cs"), 500 + tok, rnd.choice(("u%d" % b, "n0", "u0")), tok))
        cases.append(("close-burst%d" % i, (0, 50, -1), ev))
    return cases


def activation_cases(rnd, n):
    """auto-start messages to the activatable names t.N8 / t.N9 while nobody owns them: one or several senders pipeline 2-6
    messages each (calls with and without NO_REPLY_EXPECTED, signals, a few with NO_AUTO_START which bounce at once), then a
    test connection plays the service (RequestName), more messages follow, the service releases the name or leaves and the
    cycle may repeat; senders sometimes leave while their messages are held."""
    cases = []
    for i in range(n):
        ev = ["C0", "C0", "C0", "C0"]
        live = [0, 1, 2, 3]
        tok, ser = 0, 100
        if rnd.random() < 0.3:
            ev.append("M.3.20.1.%s.x.x" % rnd.choice("xcs"))
        owner = {8: None, 9: None}
        for rounds in range(rnd.randint(1, 3)):
            n8 = rnd.choice((8, 8, 9))
            senders = rnd.sample(live, min(len(live), rnd.choice((1, 1, 2, 3))))
            for c in senders:
                for k in range(rnd.randint(2, 6)):
                    tok += 1; ser += 1
                    ty = rnd.choice("cccs")
                    nr = 1 if ty == "s" or rnd.random() < 0.6 else 0
                    na = 1 if rnd.random() < 0.12 else 0
                    dst = "n%d" % (n8 if rnd.random() < 0.85 else rnd.choice((8, 9, 0)))
                    ev.append("S.%d.%s.%d.%d.%d.0.%s.0.%d" % (c, ty, nr, na, ser, dst, tok))
                if rnd.random() < 0.15 and len(live) > 2:
                    ev.append("D.%d" % c)
                    live.remove(c)
            if not live:
                break
            svc = rnd.choice(live)
            ser += 1
            ev.append("R.%d.%d.%d.%d" % (svc, ser, n8, rnd.choice((0, 0, 4, 1))))
            for k in range(rnd.randint(0, 3)):
                tok += 1; ser += 1
                c = rnd.choice(live)
                ev.append("S.%d.%s.1.0.%d.0.n%d.0.%d" % (c, rnd.choice("cs"), ser, n8, tok))
            r = rnd.random()
            ser += 1
            if r < 0.5:
                ev.append("L.%d.%d.%d" % (svc, ser, n8))
            elif r < 0.7 and len(live) > 2:
                ev.append("D.%d" % svc)
                live.remove(svc)
        cases.append((("pipe-act%d" if i % 2 else "act%d") % i, (0, 50, -1), ev))
    return cases


def gen_cases(tier, rnd):
    cases = [c for c in rg.scenarios() if c[1][0] == 0]
    cases += rc.load_corpus("C05")
    n_plain, n_timed, n_burst = (700, 6, 50) if tier == "quick" else (30000, 600, 3000)
    for i in range(n_plain):
        cfg = (0, rnd.choice((2, 3, 50, 50)), -1)
        cases.append((("pipe-gen%d" if i % 3 == 0 else "gen%d") % i, cfg, rg.gen_history(rnd, cfg, "c05", rnd.randint(6, 18))))
    for i in range(n_timed):
        cfg = (0, 50, rg.TIMEOUT)
        cases.append(("timed%d" % i, cfg, rg.gen_history(rnd, cfg, "c05", rnd.randint(5, 10))))
    cases += burst_cases(rnd, n_burst)
    cases += close_cases(rnd, 12 if tier == "quick" else 300)
    cases += activation_cases(rnd, 60 if tier == "quick" else 3000)
    return cases


def run(ctx):
    rep, tier = ctx["rep"], ctx["tier"]
    rnd = random.Random(ctx["seed"] + 505)
    cases = gen_cases(tier, rnd)
    r = rc.run_check(ctx, "C05", cases, rc.C05_CODES, NONTRIVIAL,
                     "correspondence harness/py/routing_impl.py (dbus-daemon, permissive policy) vs Routing.step (extracted)")
    cases = r["cases"]
    samples = []
    for i in range(0, len(cases), max(1, len(cases) // 10)):
        if r["itoks"][i] is not None:
            samples.append({"cfg": list(cases[i][1]), "events": " ".join(cases[i][2]), "impl": " ".join(r["itoks"][i]), "model": " ".join(r["mtoks"][i])})
    rep.coverage.update({
        "evaluations": len(cases), "distinct_nontrivial": len(r["nontrivial"]),
        "rule": "histories of 5-18 events over up to 4 live raw clients under an allow-everything policy: all four message types with and without "
                "NO_REPLY_EXPECTED / NO_AUTO_START, destinations = unique names (live, own, gone, never assigned) and three well-known names, "
                "RequestName with every flag combination / ReleaseName / GetId / NameHasOwner / disconnect interleaved (ownership changes between sends; "
                "the calls to the driver themselves are observed: reply to the caller, copies only to eavesdrop rule holders), AddMatch by senders, "
                "recipients and bystanders (eavesdrop='true' or not; type / sender / destination keys, including rules matching the holder's own "
                "incoming unicast traffic), unix fds to peers "
                "with and without fd passing, max_replies_per_connection in {2,3,50}; ordered bursts from one sender to a name whose owner changes; "
                "every forwarded message compared field by field with what was written (all header fields but SENDER, signature, body, fd count); "
                "after each event every live client is drained behind a driver round trip, so absence at third parties is observed.  "
                "non-trivial = at least one delivery or bus error; distinct = distinct (configuration, event list)",
        "samples": samples[:10], "input_distribution": r["dist"], "traces_validated_against_impl": len(cases) - r["tainted"],
        "steps_compared": r["steps"], "sends_written_back_to_back": r["pipelined"], "bytes_written_in_one_piece_before_close": r["burst_bytes"], "disagreements_checked": r["disagreements"], "timing_unusable": r["tainted"],
        "illformed_histories": r["illformed"], "exhaustive": False,
        "explanation": "theorems: every send yields exactly one output, the message to the primary owner in the pre-state or one error to the sender; "
                       "nobody else gets it; FIFO per (sender, recipient); at most one error per serial on histories without fds; "
                       "correspondence: real dbus-daemon = model step by step; trace oracle evaluated on the daemon's observed behaviour",
    })
    rep.assumptions = [
        "model coq/Routing/Routing.v is hand-written; tied to the code by the correspondence run only",
        "who owns a name is computed by the model's copy of the RequestName/ReleaseName queue rules (property C04 specifies them); the oracle takes the owner from there",
        "every event is fully processed before the next one is written (round-trip barriers): concurrent senders, slow readers and the libdbus outgoing queue are not explored here",
        "match rules: only the keys eavesdrop, type, sender, destination on unicast messages (full match-rule semantics and broadcasts: C07; monitors: C18)",
        "activation: names t.N8 / t.N9 have service files whose Exec never claims the name; service-file parsing, the launch helper, start timeouts and failing children are C19's",
        "out-of-memory paths are outside the model (C14)",
    ]
