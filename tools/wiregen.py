"""Structured generators for wire-level checks (C01, C02, C11, C12)."""
import os, struct, sys
sys.path.insert(0, os.path.join(os.path.dirname(os.path.abspath(__file__)), "..", "harness", "py"))
from rawbus import Msg, Variant, split_sig, METHOD_CALL, METHOD_RETURN, ERROR, SIGNAL  # noqa

BASIC = "ybnqiuxtdsogh"
FIXED = "ybnqiuxtdh"
ALLOW_FD = True      # construction programs (C02) switch this off: 'h' values are indexes assigned by the library


def rand_sct(rnd, depth, allow_variant=True):
    r = rnd.random()
    basic = BASIC if ALLOW_FD else BASIC.replace("h", "")
    if depth <= 0 or r < 0.45:
        return rnd.choice(basic + ("v" if allow_variant else ""))
    if r < 0.65:
        return "a" + rand_sct(rnd, depth - 1)
    if r < 0.8:
        return "a{" + rnd.choice(basic) + rand_sct(rnd, depth - 1) + "}"
    return "(" + "".join(rand_sct(rnd, depth - 1) for _ in range(rnd.randint(1, 3))) + ")"


NAMES = ["a.b", "org.freedesktop.DBus", "com.example.Foo_1", "x.y.z", "a.b" * 40, "org.freedesktop.DBus.Localx", "A._9"]
PATHS = ["/", "/a", "/a/b_c/D9", "/org/freedesktop/DBus", "/org/freedesktop/DBus/Localx", "/" + "a" * 100]
STRS = ["", "a", "hello", "héllo", "€", "\U0001f600", "x" * 7, "y" * 8, "z" * 9, "퟿", "", "w" * 255]
SIGS = ["", "i", "ai", "a{sv}", "(ii)", "v", "a(ss)", "s" * 20]
EDGE = {"y": [0, 1, 255], "n": [-32768, -1, 0, 32767], "q": [0, 65535], "i": [-2 ** 31, -1, 0, 2 ** 31 - 1], "u": [0, 1, 2 ** 32 - 1],
        "x": [-2 ** 63, -1, 0, 2 ** 63 - 1], "t": [0, 2 ** 64 - 1], "h": [0, 1, 7]}
DOUBLES = [0.0, -0.0, 1.5, float("inf"), float("-inf"), float("nan"), 5e-324, 1.7976931348623157e308]


def rand_value(rnd, sig, depth=0):
    c = sig[0]
    if c in EDGE:
        return rnd.choice(EDGE[c]) if rnd.random() < 0.6 else rnd.randint(min(EDGE[c]), max(EDGE[c]))
    if c == "b":
        return rnd.random() < 0.5
    if c == "d":
        return rnd.choice(DOUBLES)
    if c == "s":
        return rnd.choice(STRS)
    if c == "o":
        return rnd.choice(PATHS)
    if c == "g":
        return rnd.choice(SIGS)
    if c == "v":
        t = rand_sct(rnd, 2 if depth < 3 else 0, allow_variant=depth < 6)
        return Variant(t, rand_value(rnd, t, depth + 1))
    if c == "a":
        et = sig[1:]
        n = rnd.choice((0, 0, 1, 2, 3, 5))
        if et[0] == "{":
            inner = split_sig(et[1:-1])
            return [(rand_value(rnd, inner[0], depth + 1), rand_value(rnd, inner[1], depth + 1)) for _ in range(n)]
        return [rand_value(rnd, et, depth + 1) for _ in range(n)]
    if c in "({":
        return tuple(rand_value(rnd, t, depth + 1) for t in split_sig(sig[1:-1]))
    raise ValueError(sig)


def rand_message(rnd, max_depth=3, valid_fields=True):
    mtype = rnd.choice((1, 1, 2, 3, 4, 4, 5, 9))
    f = {}
    if mtype in (1, 4) or rnd.random() < 0.3:
        f[1] = rnd.choice(PATHS[:4])
        f[3] = rnd.choice(("Foo", "a", "_x9", "M" * 255))
    if mtype == 4 or rnd.random() < 0.5:
        f[2] = rnd.choice(NAMES[:5])
    if mtype == 3:
        f[4] = rnd.choice(NAMES[:4])
    if mtype in (2, 3) or rnd.random() < 0.2:
        f[5] = rnd.choice((1, 7, 2 ** 32 - 1))
    if rnd.random() < 0.5:
        f[6] = rnd.choice(NAMES[:4] + [":1.5", ":1.0.x-y"])
    if rnd.random() < 0.3:
        f[7] = rnd.choice(NAMES[:3] + [":1.7"])
    if rnd.random() < 0.1:
        f[10] = rnd.choice(PATHS[:3])
    nargs = rnd.choice((0, 1, 1, 2, 3))
    types = [rand_sct(rnd, rnd.randint(0, max_depth)) for _ in range(nargs)]
    sig = "".join(types)
    if len(sig) > 200:
        types, sig = ["i"], "i"
    body = tuple(rand_value(rnd, t) for t in types)
    extra = []
    if rnd.random() < 0.25:
        t = rand_sct(rnd, 2)
        extra.append((rnd.choice((11, 12, 100, 255)), Variant(t, rand_value(rnd, t))))
    flags = rnd.choice((0, 0, 1, 2, 3, 4, 7, 0x80))
    m = Msg(mtype, flags, rnd.choice((1, 2, 77, 2 ** 32 - 1)), f, sig, body, le=rnd.random() < 0.6, extra_fields=extra)
    order = sorted(set(f) | ({8} if sig else set()))
    if rnd.random() < 0.4:
        rnd.shuffle(order)
    m.order = order
    return m


def encode(m):
    return m.encode(field_order=getattr(m, "order", None))


MUT_VALUES = (0x00, 0x01, 0xff, 0x7f, 0x80)


def mutations(b, rnd, per_offset=True, limit=None):
    """single-site corruptions of a valid message: every offset x several values, +1/-1, truncation at every offset, trailing bytes"""
    out = []
    offs = range(len(b)) if per_offset else sorted(rnd.sample(range(len(b)), min(len(b), limit or 40)))
    for i in offs:
        for v in MUT_VALUES:
            if b[i] != v:
                out.append(b[:i] + bytes([v]) + b[i + 1:])
        out.append(b[:i] + bytes([(b[i] + 1) & 0xff]) + b[i + 1:])
        out.append(b[:i] + bytes([(b[i] - 1) & 0xff]) + b[i + 1:])
    for i in range(len(b)):
        out.append(b[:i])
    for k in (1, 3, 8, 15):
        out.append(b + bytes([0x6c] + [0] * (k - 1)))
    return out


def header_len(b):
    le = b[0] == ord("l")
    fl = struct.unpack_from("<I" if le else ">I", b, 12)[0]
    return (16 + fl + 7) // 8 * 8


# ---------------------------------------------------------------------------
# construction programs (C02): value -> token list understood by wire_h `build` and the model driver
# ---------------------------------------------------------------------------
def _unsigned(c, v):
    import struct as st
    if c == "d":
        return st.unpack("<Q", st.pack("<d", v))[0]
    bits = {"y": 8, "n": 16, "q": 16, "i": 32, "u": 32, "x": 64, "t": 64, "h": 32, "b": 32}[c]
    return int(v) & ((1 << bits) - 1)


def tokens(sig, val):
    c = sig[0]
    if c in "ybnqiuxtdh":
        return ["%s%d" % (c, _unsigned(c, val))]
    if c in "sog":
        b = val.encode("utf-8") if isinstance(val, str) else bytes(val)
        return [c + (b.hex() if b else "-")]
    if c == "v":
        return ["V" + val.sig] + tokens(val.sig, val.val) + [";"]
    if c == "a":
        et = sig[1:]
        out = ["A" + et]
        for x in val:
            out += tokens(et, x)
        return out + ["]"]
    if c in "({":
        out = [c]
        for t, x in zip(split_sig(sig[1:-1]), val):
            out += tokens(t, x)
        return out + [")" if c == "(" else "}"]
    raise ValueError(sig)


def name_of_len(n, kind):
    """a valid name of exactly n bytes for the given header field kind"""
    if kind in ("iface", "err", "dest", "sender"):
        n = max(n, 3)
        return "a." + "b" * (n - 2)
    if kind == "member":
        return "M" * max(n, 1)
    if kind in ("path", "ci"):
        n = max(n, 1)
        return "/" + "p" * (n - 1) if n != 2 else "/p"
    raise ValueError(kind)


def rand_program(rnd, max_depth=3):
    """a well-typed construction program: (type, flags, serial, setters, body tokens) with mandatory fields mostly present"""
    global ALLOW_FD
    ALLOW_FD = False
    try:
        return _rand_program(rnd, max_depth)
    finally:
        ALLOW_FD = True


def _rand_program(rnd, max_depth=3):
    mtype = rnd.choice((1, 2, 3, 4))
    setters = []
    def s(k, v):
        setters.append("%s=%s" % (k, v.encode().hex() if isinstance(v, str) else v))
    L = lambda: rnd.choice((3, 4, 5, 6, 7, 8, 9, 12, 15, 16, 17, 24, 31, 32, 33, 40, 255))
    if mtype in (1, 4):
        s("path", name_of_len(L(), "path")); s("member", name_of_len(rnd.choice((1, 2, 7, 8, 255)), "member"))
    if mtype == 4 or rnd.random() < 0.5:
        s("iface", name_of_len(L(), "iface"))
    if mtype == 3:
        s("err", name_of_len(L(), "err"))
    if mtype in (2, 3):
        setters.append("rs=%d" % rnd.choice((1, 77, 2 ** 32 - 1)))
    if rnd.random() < 0.6:
        s("dest", rnd.choice((name_of_len(L(), "dest"), ":1.%d" % rnd.randint(0, 99999))))
    if rnd.random() < 0.3:
        s("sender", rnd.choice((name_of_len(L(), "sender"), ":1.7")))
    if rnd.random() < 0.1:
        s("ci", name_of_len(L(), "ci"))
    rnd.shuffle(setters)
    if rnd.random() < 0.2 and setters:
        # replace / delete something already set
        k = rnd.choice(setters).split("=")[0]
        if k != "rs":
            setters.append("%s=%s" % (k, rnd.choice(("~", name_of_len(L(), k).encode().hex()))))
    nargs = rnd.choice((0, 1, 1, 2, 3, 4))
    types = [rand_sct(rnd, rnd.randint(0, max_depth)) for _ in range(nargs)]
    if len("".join(types)) > 200:
        types = ["i"]
    toks = []
    for t in types:
        toks += tokens(t, rand_value(rnd, t))
    flags = rnd.choice((0, 0, 1, 2, 3, 4, 7))
    serial = rnd.choice((1, 2, 77, 2 ** 32 - 1))
    return "build %d %d %d %s %s" % (mtype, flags, serial, ",".join(setters) or "rs=1", " ".join(toks))
