"""Generator for coq/Gen/PendingTables.v (package `pending`, property C17).

Lifted from /repo on every run and given meaning by the C compiler:
  * the body of _dbus_connection_get_next_client_serial (dbus/dbus-connection.c) is compiled against a
    one-field stand-in for DBusConnection and run on counters around both ends of the 32-bit range
    -> next_serial_samples (counter before, serial returned, counter after);
  * the initial value of client_serial in _dbus_connection_new_for_transport -> initial_client_serial;
  * RANDOM_INDEX and the initial down_shift / mask / table size / rebuild multiplier of dbus/dbus-hash.c,
    evaluated for the keys 0..63 and a few large ones (passed as the C code passes them: the unsigned serial converted to int, then to a pointer) -> hash_bucket_samples, hash_rebuild_threshold
    (the order in which connection_timeout_and_complete_all_pending_calls_unlocked walks pending_replies).
coq/Proofs/PendingTie.v checks the model's next_serial / init / bucket against these tables by vm_compute,
so a change of the C text breaks a proof (and the correspondence run then looks for the failing input).
The regexes only locate text; if the shape is not the known one the generator raises (BROKEN TIE)."""
import os, re, subprocess


class Shape(Exception):
    pass


def function_text(src, header_re):
    m = re.search(header_re, src, re.M)
    if not m:
        raise Shape("function header %s not found" % header_re)
    i = src.index("{", m.end() - 1)
    depth = 0
    for j in range(i, len(src)):
        if src[j] == "{":
            depth += 1
        elif src[j] == "}":
            depth -= 1
            if depth == 0:
                return src[i:j + 1]
    raise Shape("unbalanced braces")


def generate(repo, verif, build_dbus_dir):
    conn = open(os.path.join(repo, "dbus", "dbus-connection.c"), encoding="utf-8", errors="replace").read()
    hsh = open(os.path.join(repo, "dbus", "dbus-hash.c"), encoding="utf-8", errors="replace").read()
    body = function_text(conn, r"^_dbus_connection_get_next_client_serial\s*\(DBusConnection \*connection\)\s*\{")
    if "client_serial" not in body or "return" not in body:
        raise Shape("_dbus_connection_get_next_client_serial has an unknown shape")
    m = re.search(r"connection->client_serial\s*=\s*([^;]+);", function_text(conn, r"^_dbus_connection_new_for_transport\s*\(DBusTransport \*transport\)\s*\{"))
    if not m:
        raise Shape("initial client_serial not found")
    init_expr = m.group(1)
    mm = re.search(r"^#define RANDOM_INDEX\(table, i\)\s*\\\n(.*)$", hsh, re.M)
    if not mm:
        raise Shape("RANDOM_INDEX not found")
    rnd = mm.group(1).strip()
    initf = function_text(hsh, r"^_dbus_hash_table_new\s*\([^)]*\)\s*\{")
    ds = re.search(r"table->down_shift\s*=\s*([^;]+);", initf)
    mk = re.search(r"table->mask\s*=\s*([^;]+);", initf)
    hi = re.search(r"table->hi_rebuild_size\s*=\s*([^;]+);", initf)
    small = re.search(r"^#define DBUS_SMALL_HASH_TABLE\s+(\S+)", hsh, re.M)
    mult = re.search(r"^#define REBUILD_MULTIPLIER\s+(\S+)", hsh, re.M)
    if not (ds and mk and hi and small and mult):
        raise Shape("hash table initial parameters not found")
    dflt = re.search(r"^#define _DBUS_DEFAULT_TIMEOUT_VALUE\s+(.+)$", open(os.path.join(repo, "dbus", "dbus-connection-internal.h")).read(), re.M)
    tinf = re.search(r"^#define DBUS_TIMEOUT_INFINITE\s+(.+)$", open(os.path.join(repo, "dbus", "dbus-pending-call.h")).read(), re.M)
    pcn = function_text(open(os.path.join(repo, "dbus", "dbus-pending-call.c"), encoding="utf-8", errors="replace").read(),
                        r"^_dbus_pending_call_new_unlocked\s*\([^)]*\)\s*\{")
    if not (dflt and tinf) or "timeout_milliseconds == -1" not in pcn or "timeout_milliseconds != DBUS_TIMEOUT_INFINITE" not in pcn:
        raise Shape("timeout defaults have an unknown shape")
    prog = r'''
#include <stdio.h>
#include <stdint.h>
typedef uint32_t dbus_uint32_t;
typedef struct { dbus_uint32_t client_serial; } DBusConnection;
static dbus_uint32_t next_serial (DBusConnection *connection)
%s
#define DBUS_SMALL_HASH_TABLE %s
#define REBUILD_MULTIPLIER %s
typedef struct { int down_shift; int mask; int hi_rebuild_size; } T;
#define RANDOM_INDEX(table, i) \
 %s
int main (void)
{
  static const dbus_uint32_t cs[] = { 1u, 2u, 3u, 1000u, 0x7fffffffu, 0x80000000u, 0xfffffffdu, 0xfffffffeu, 0xffffffffu };
  static const unsigned long long ks[] = { 100ull, 255ull, 256ull, 1000ull, 65535ull, 999999ull, 0x7fffffffull, 0xfffffffeull, 0xffffffffull };
  unsigned i; T tab; T *table = &tab; DBusConnection c;
  tab.down_shift = %s; tab.mask = %s; tab.hi_rebuild_size = %s;
  c.client_serial = %s;
  printf ("Definition initial_client_serial : N := %%u.\n", c.client_serial);
  printf ("Definition next_serial_samples : list (N * (N * N)) := [");
  for (i = 0; i < sizeof cs / sizeof cs[0]; i++)
    { dbus_uint32_t s; c.client_serial = cs[i]; s = next_serial (&c); printf ("%%s(%%u, (%%u, %%u))", i ? "; " : "", cs[i], s, c.client_serial); }
  printf ("].\n");
  printf ("Definition hash_bucket_samples : list (N * N) := [");
  for (i = 0; i < 64; i++) printf ("%%s(%%u, %%ld)", i ? "; " : "", i, (long) (RANDOM_INDEX (table, (void *) (intptr_t) (int) i)));
  for (i = 0; i < sizeof ks / sizeof ks[0]; i++) printf ("; (%%llu, %%ld)", ks[i], (long) (RANDOM_INDEX (table, (void *) (intptr_t) (int) (dbus_uint32_t) ks[i])));
  printf ("].\n");
  printf ("Definition hash_rebuild_threshold : N := %%d.\n", tab.hi_rebuild_size);
  printf ("Definition c_default_timeout_value : N := %%d.\n", (int) (%s));
  printf ("Definition c_timeout_infinite : N := %%d.\n", (int) (%s));
  return 0;
}
''' % (body, small.group(1), mult.group(1), rnd, ds.group(1), mk.group(1), hi.group(1), init_expr, dflt.group(1), tinf.group(1))
    d = os.path.join(os.environ.get("VERIF_BUILD", os.path.join(verif, "build")), "gen")
    os.makedirs(d, exist_ok=True)
    src = os.path.join(d, "pending_gen.c")
    exe = os.path.join(d, "pending_gen")
    open(src, "w").write(prog)
    r = subprocess.run(["cc", "-w", "-o", exe, src], capture_output=True, text=True)
    if r.returncode != 0:
        raise Shape("lifted C text does not compile: " + r.stderr[-400:])
    r = subprocess.run([exe], capture_output=True, text=True, timeout=30)
    if r.returncode != 0:
        raise Shape("generator program failed")
    text = ("(* GENERATED by tools/gen/pending.py from /repo (dbus-connection.c, dbus-hash.c) -- do not edit *)\n"
            "From Coq Require Import List NArith.\nImport ListNotations.\nLocal Open Scope N_scope.\n\n" + r.stdout)
    return "PendingTables.v", text
