"""Per-package generator for the `policy` package (property C06).

Regenerates coq/Gen/PolicyTables.v from /repo's current tree:

* the catch-all condition of bus_client_policy_optimize (bus/policy.c), one per
  rule type.  The *text* of each `remove_preceding = ...;` expression is located
  by regex; its *meaning* is obtained by compiling it into a tiny C program that
  evaluates it on a grid of BusPolicyRule values (every field wild / not wild,
  both verdicts, all three broadcast states ...).  The program checks that the
  condition is a conjunction of the "atoms" known to the Coq model (field X is a
  wildcard, fd range is the full range, the reply/eavesdrop modifiers make the
  rule apply always) and prints which atoms are required.  Any other shape is
  refused (exception -> BROKEN TIE).
* the defaults given to a fresh rule by bus_policy_rule_new (requested_reply per
  verdict, max_fds/min_fds), obtained by calling nothing: they are read off the
  source text shape `rule->d.send.requested_reply = rule->allow;`.
"""
import os, re, subprocess

ATOMS = ["type", "path", "iface", "member", "error", "name", "bcast", "minfds", "maxfds", "reply", "eaves", "noprefix"]


def _cond(src, case):
    m = re.search(r"\nbus_client_policy_optimize\s*\(.*?\n\}\n", src, re.S)
    if not m:
        raise RuntimeError("bus_client_policy_optimize not found in bus/policy.c")
    body = m.group(0)
    m = re.search(r"case\s+" + case + r"\s*:\s*remove_preceding\s*=(.*?);\s*break\s*;", body, re.S)
    if not m:
        raise RuntimeError("optimize: no `remove_preceding = ...` for %s" % case)
    txt = m.group(1)
    if "{" in txt or ";" in txt or "case" in txt:
        raise RuntimeError("optimize: condition for %s has an unexpected shape" % case)
    return " ".join(txt.split())


C_PROG = r"""
#include <config.h>
#include <stdio.h>
#include <string.h>
#include <dbus/dbus.h>
#include "bus/policy.h"
static int cond_send (BusPolicyRule *rule) { return (%(send)s) ? 1 : 0; }
static int cond_recv (BusPolicyRule *rule) { return (%(recv)s) ? 1 : 0; }
static int cond_own (BusPolicyRule *rule) { return (%(own)s) ? 1 : 0; }
#define NATOM 12
enum { A_TYPE, A_PATH, A_IFACE, A_MEMBER, A_ERROR, A_NAME, A_BCAST, A_MINFDS, A_MAXFDS, A_REPLY, A_EAVES, A_NOPREFIX };
static const char *names[NATOM] = { "type", "path", "iface", "member", "error", "name", "bcast", "minfds", "maxfds", "reply", "eaves", "noprefix" };
static char str[] = "x";
/* grid point -> rule + atom valuation; returns 0 when the grid is exhausted */
static unsigned long maxs[3] = { DBUS_MAXIMUM_MESSAGE_UNIX_FDS, DBUS_MAXIMUM_MESSAGE_UNIX_FDS - 1, 0 };
static void fill (int kind, unsigned long g, BusPolicyRule *r, int *atom)
{
  int i; int allow, eav, rr, bc, mt, mn, mx, pf, lg; char *f[5]; char *name;
  memset (r, 0, sizeof *r); for (i = 0; i < NATOM; i++) atom[i] = 1;
  allow = g & 1; g >>= 1; eav = g & 1; g >>= 1; rr = g & 1; g >>= 1; lg = g & 1; g >>= 1; pf = g & 1; g >>= 1;
  mt = g & 1; g >>= 1; mn = g & 1; g >>= 1;
  for (i = 0; i < 4; i++) { f[i] = (g & 1) ? str : NULL; g >>= 1; }
  name = (g & 1) ? str : NULL; g >>= 1;
  bc = g %% 3; g /= 3; mx = g %% 3;
  r->refcount = 1; r->allow = allow;
  if (kind == 0) {
    r->type = BUS_POLICY_RULE_SEND;
    r->d.send.message_type = mt ? DBUS_MESSAGE_TYPE_METHOD_CALL : DBUS_MESSAGE_TYPE_INVALID;
    r->d.send.path = f[0]; r->d.send.interface = f[1]; r->d.send.member = f[2]; r->d.send.error = f[3]; r->d.send.destination = name;
    r->d.send.max_fds = maxs[mx]; r->d.send.min_fds = mn; r->d.send.eavesdrop = eav; r->d.send.requested_reply = rr; r->d.send.log = lg;
    r->d.send.broadcast = bc; r->d.send.destination_is_prefix = pf;
  } else if (kind == 1) {
    r->type = BUS_POLICY_RULE_RECEIVE;
    r->d.receive.message_type = mt ? DBUS_MESSAGE_TYPE_METHOD_CALL : DBUS_MESSAGE_TYPE_INVALID;
    r->d.receive.path = f[0]; r->d.receive.interface = f[1]; r->d.receive.member = f[2]; r->d.receive.error = f[3]; r->d.receive.origin = name;
    r->d.receive.max_fds = maxs[mx]; r->d.receive.min_fds = mn; r->d.receive.eavesdrop = eav; r->d.receive.requested_reply = rr;
    bc = 0; pf = 0;
  } else {
    r->type = BUS_POLICY_RULE_OWN; r->d.own.service_name = name; r->d.own.prefix = pf;
    mt = 0; f[0] = f[1] = f[2] = f[3] = NULL; bc = 0; mn = 0; mx = 0; eav = allow; rr = !allow ? 1 : 0;
  }
  atom[A_TYPE] = !mt; atom[A_PATH] = !f[0]; atom[A_IFACE] = !f[1]; atom[A_MEMBER] = !f[2]; atom[A_ERROR] = !f[3]; atom[A_NAME] = !name;
  atom[A_BCAST] = (bc == BUS_POLICY_TRISTATE_ANY); atom[A_MINFDS] = (mn == 0); atom[A_MAXFDS] = (mx == 0);
  atom[A_REPLY] = allow ? (!rr || eav) : rr; atom[A_EAVES] = allow ? eav : !eav; atom[A_NOPREFIX] = !pf;
}
#define GRID (1UL << 12) * 9
static int analyse (int kind, int (*cond) (BusPolicyRule *), const char *kname)
{
  int need[NATOM]; int i; unsigned long g; BusPolicyRule r; int atom[NATOM]; int ntrue = 0;
  for (i = 0; i < NATOM; i++) need[i] = 1;
  for (g = 0; g < GRID; g++) { fill (kind, g, &r, atom); if (cond (&r)) { ntrue++; for (i = 0; i < NATOM; i++) if (!atom[i]) need[i] = 0; } }
  if (ntrue == 0) { fprintf (stderr, "condition for %%s is never true\n", kname); return 0; }
  for (g = 0; g < GRID; g++) { int all = 1; fill (kind, g, &r, atom);
    for (i = 0; i < NATOM; i++) if (need[i] && !atom[i]) all = 0;
    if (all != cond (&r)) { fprintf (stderr, "condition for %%s is not a conjunction of the known atoms (grid point %%lu)\n", kname, g); return 0; } }
  printf ("Definition opt_mask_%%s : catchall_mask := {|", kname);
  for (i = 0; i < NATOM; i++) printf (" cm_%%s := %%s%%s", names[i], need[i] ? "true" : "false", i + 1 < NATOM ? ";" : "");
  printf (" |}.\n");
  return 1;
}
int main (void)
{
  printf ("(* GENERATED by tools/gen/policy.py from /repo/bus/policy.c -- do not edit *)\n");
  printf ("(* condition text (send):    %%s *)\n", %(send_s)s);
  printf ("(* condition text (receive): %%s *)\n", %(recv_s)s);
  printf ("(* condition text (own):     %%s *)\n", %(own_s)s);
  printf ("(* Which atoms bus_client_policy_optimize requires before it treats a rule as a catch-all\n   (and deletes all earlier rules of the same type).  Atoms: the field is a wildcard (type, path,\n   iface, member, error, name = destination/origin/service_name), broadcast is ANY, min_fds = 0,\n   max_fds >= DBUS_MAXIMUM_MESSAGE_UNIX_FDS, the requested_reply modifier makes the rule apply to\n   every reply (reply), the eavesdrop modifier makes it apply whether or not eavesdropping (eaves),\n   the prefix flag is off (noprefix). *)\n");
  printf ("Record catchall_mask := { cm_type : bool; cm_path : bool; cm_iface : bool; cm_member : bool; cm_error : bool; cm_name : bool;\n  cm_bcast : bool; cm_minfds : bool; cm_maxfds : bool; cm_reply : bool; cm_eaves : bool; cm_noprefix : bool }.\n");
  if (!analyse (0, cond_send, "send")) return 3;
  if (!analyse (1, cond_recv, "recv")) return 3;
  if (!analyse (2, cond_own, "own")) return 3;
  return 0;
}
"""


def _cstr(s):
    return '"' + s.replace("\\", "\\\\").replace('"', '\\"') + '"'


def _rule_new_defaults(src):
    m = re.search(r"\nbus_policy_rule_new\s*\(.*?\n\}\n", src, re.S)
    if not m:
        raise RuntimeError("bus_policy_rule_new not found")
    body = m.group(0)
    out = {}
    for kind, fld in (("send", "send"), ("recv", "receive")):
        mm = re.search(r"rule->d\.%s\.requested_reply\s*=\s*([^;]+);" % fld, body)
        if not mm:
            raise RuntimeError("bus_policy_rule_new: no requested_reply default for %s" % fld)
        e = mm.group(1).strip()
        if e == "rule->allow":
            out[kind] = "fun allow : bool => allow"
        elif e in ("TRUE", "1"):
            out[kind] = "fun allow : bool => true"
        elif e in ("FALSE", "0"):
            out[kind] = "fun allow : bool => false"
        elif e == "!rule->allow":
            out[kind] = "fun allow : bool => negb allow"
        else:
            raise RuntimeError("bus_policy_rule_new: unknown requested_reply default `%s`" % e)
    if "dbus_new0 (BusPolicyRule, 1)" not in body:
        raise RuntimeError("bus_policy_rule_new no longer zero-initialises the rule")
    return out


def generate(repo, verif, build_dbus_dir):
    src = open(os.path.join(repo, "bus", "policy.c"), encoding="utf-8", errors="replace").read()
    conds = {"send": _cond(src, "BUS_POLICY_RULE_SEND"), "recv": _cond(src, "BUS_POLICY_RULE_RECEIVE"), "own": _cond(src, "BUS_POLICY_RULE_OWN")}
    defaults = _rule_new_defaults(src)
    bdir = os.path.join(os.path.dirname(build_dbus_dir), "gen")
    os.makedirs(bdir, exist_ok=True)
    cfile = os.path.join(bdir, "gen_policy.c")
    exe = os.path.join(bdir, "gen_policy")
    prog = C_PROG % {"send": conds["send"], "recv": conds["recv"], "own": conds["own"],
                     "send_s": _cstr(conds["send"]), "recv_s": _cstr(conds["recv"]), "own_s": _cstr(conds["own"])}
    with open(cfile, "w") as f:
        f.write(prog)
    r = subprocess.run(["cc", "-O0", "-w", "-I", repo, "-I", build_dbus_dir, "-I", os.path.join(repo, "bus"), "-DDBUS_COMPILATION",
                        "-DHAVE_CONFIG_H", "-o", exe, cfile], capture_output=True, text=True)
    if r.returncode != 0:
        raise RuntimeError("optimizer condition does not compile in isolation:\n" + r.stderr[-1500:])
    r = subprocess.run([exe], capture_output=True, text=True)
    if r.returncode != 0:
        raise RuntimeError("optimizer condition has an unknown shape: " + r.stderr[-500:])
    text = r.stdout
    text += "(* defaults of bus_policy_rule_new: requested_reply as a function of the verdict *)\n"
    text += "Definition rule_new_reqreply_send : bool -> bool := %s.\n" % defaults["send"]
    text += "Definition rule_new_reqreply_recv : bool -> bool := %s.\n" % defaults["recv"]
    return "PolicyTables.v", text
