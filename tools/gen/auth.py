"""Generator for coq/Gen/AuthTables.v (package `auth`, property C08).

Lifted from /repo/dbus/dbus-auth.c on every run:
  * the three server state handlers' `switch (command)` statements, arm by arm
    (which DBusAuthCommand is handled by which statement) -> disp_waiting_for_*;
  * auth_command_names[] (wire name -> enum), all_mechanisms[] (name -> server data function);
  * max_failures, MAX_BUFFER, N_CHALLENGE_BYTES (the C compiler evaluates the expressions);
  * the protocol words the server emits and the default cookie context.
The regexes only locate text; statements of a switch arm are recognised by exact shape and the
generator refuses (exception -> BROKEN TIE) when the source no longer has the known shape."""
import os, re, subprocess

CMDS = {"DBUS_AUTH_COMMAND_AUTH": "CAuth", "DBUS_AUTH_COMMAND_CANCEL": "CCancel", "DBUS_AUTH_COMMAND_DATA": "CData",
        "DBUS_AUTH_COMMAND_BEGIN": "CBegin", "DBUS_AUTH_COMMAND_REJECTED": "CRejected", "DBUS_AUTH_COMMAND_OK": "COk",
        "DBUS_AUTH_COMMAND_ERROR": "CError", "DBUS_AUTH_COMMAND_UNKNOWN": "CUnknown",
        "DBUS_AUTH_COMMAND_NEGOTIATE_UNIX_FD": "CNegotiateFd", "DBUS_AUTH_COMMAND_AGREE_UNIX_FD": "CAgreeFd"}
MECH_FUNCS = {"handle_server_data_external_mech": "EXTERNAL", "handle_server_data_cookie_sha1_mech": "COOKIE_SHA1",
              "handle_server_data_anonymous_mech": "ANONYMOUS"}


class Shape(Exception):
    pass


def blist(s):
    if isinstance(s, str):
        s = s.encode("latin-1")
    return "[" + "; ".join(str(b) for b in s) + "]"


def c_unescape(lit):
    return lit.encode("latin-1").decode("unicode_escape")


def function_body(src, name):
    m = re.search(r"^" + re.escape(name) + r"\s*\([^)]*\)\s*\{", src, re.M)
    if not m:
        raise Shape("function %s not found" % name)
    i = m.end()
    depth = 1
    while depth:
        c = src[i]
        if c == "{":
            depth += 1
        elif c == "}":
            depth -= 1
        elif c == '"':
            i += 1
            while src[i] != '"':
                i += 2 if src[i] == "\\" else 1
        elif src.startswith("/*", i):
            i = src.index("*/", i) + 1
        i += 1
    return src[m.end():i - 1]


def strip_comments(s):
    return re.sub(r"/\*.*?\*/", " ", s, flags=re.S)


ARM_SHAPES = [
    (r'return handle_auth \(auth, args\);', lambda m: "A_HandleAuth"),
    (r'return send_error ?\(auth, "([^"\\]*)"\);', lambda m: "(A_SendError %s)" % blist(m.group(1))),
    (r'return send_rejected \(auth\);', lambda m: "A_SendRejected"),
    (r'return process_data \(auth, args, auth->mech->server_data_func\);', lambda m: "A_ProcessData"),
    (r'goto_state \(auth, &common_state_need_disconnect\); return TRUE;', lambda m: "A_GotoDisconnect"),
    (r'goto_state \(auth, &common_state_authenticated\); return TRUE;', lambda m: "A_GotoAuthenticated"),
    (r'if \(auth->unix_fd_possible\) return send_agree_unix_fd ?\(auth\); else return send_error ?\(auth, "([^"\\]*)"\);',
     lambda m: "(A_NegotiateFd %s)" % blist(m.group(1))),
]


def parse_switch(src, fname):
    body = strip_comments(function_body(src, fname))
    m = re.match(r"\s*switch \(command\)\s*\{(.*)\}\s*$", body, re.S)
    if not m:
        raise Shape("%s is not a single switch (command)" % fname)
    text = " ".join(m.group(1).split())
    # tokenise into labels and statement text
    parts = re.split(r"(case DBUS_AUTH_COMMAND_[A-Z_]+:|default:)", text)
    if parts[0].strip():
        raise Shape("%s: text before first case label" % fname)
    table, default, pending = {}, None, []
    i = 1
    while i < len(parts):
        label, stmt = parts[i], parts[i + 1].strip()
        pending.append(label)
        if stmt:
            act = None
            for rx, mk in ARM_SHAPES:
                mm = re.fullmatch(rx, stmt)
                if mm:
                    act = mk(mm)
                    break
            if act is None:
                raise Shape("%s: unrecognised switch arm `%s`" % (fname, stmt[:120]))
            for l in pending:
                if l == "default:":
                    default = act
                else:
                    c = l[5:-1]
                    if c not in CMDS:
                        raise Shape("%s: unknown command %s" % (fname, c))
                    if CMDS[c] in table:
                        raise Shape("%s: duplicate case %s" % (fname, c))
                    table[CMDS[c]] = act
            pending = []
        i += 2
    if pending:
        raise Shape("%s: labels without statement" % fname)
    if default is None:
        raise Shape("%s: no default arm" % fname)
    return table, default


def literal_in(src, fname, rx, what):
    body = strip_comments(function_body(src, fname))
    m = re.search(rx, body, re.S)
    if not m:
        raise Shape("%s: %s not found" % (fname, what))
    return c_unescape(m.group(1))


def generate(repo, verif, build_dbus_dir):
    src = open(os.path.join(repo, "dbus", "dbus-auth.c"), encoding="utf-8", errors="replace").read()
    out = ["(* GENERATED by tools/gen/auth.py from /repo/dbus/dbus-auth.c -- do not edit *)",
           "From Coq Require Import List NArith.", "From DV Require Import Lib.Base Auth.Types.",
           "Import ListNotations.", "Local Open Scope N_scope.", ""]
    # --- command names
    m = re.search(r"auth_command_names\[\]\s*=\s*\{(.*?)\};", src, re.S)
    if not m:
        raise Shape("auth_command_names[] not found")
    names = re.findall(r'\{\s*"([A-Z_]+)"\s*,\s*(DBUS_AUTH_COMMAND_[A-Z_]+)\s*\}', m.group(1))
    if len(names) < 7 or any(c not in CMDS for _, c in names):
        raise Shape("auth_command_names[] has unexpected shape")
    out.append("Definition auth_command_names : list (bytes * cmd) :=\n  [" +
               ";\n   ".join("(%s, %s) (* %s *)" % (blist(n), CMDS[c], n) for n, c in names) + "].")
    # --- mechanisms, in table order
    m = re.search(r"all_mechanisms\[\]\s*=\s*\{(.*?)\{\s*NULL\s*,\s*NULL\s*\}\s*\};", src, re.S)
    if not m:
        raise Shape("all_mechanisms[] not found")
    mechs = re.findall(r'\{\s*"([A-Z0-9_]+)"\s*,\s*(\w+)\s*,', m.group(1))
    if not mechs or any(f not in MECH_FUNCS for _, f in mechs):
        raise Shape("all_mechanisms[] has unexpected shape: %r" % (mechs,))
    if len(set(f for _, f in mechs)) != len(mechs):
        raise Shape("all_mechanisms[]: a server data function is used twice")
    out.append("Definition all_mechanisms : list (bytes * mech) :=\n  [" +
               "; ".join("(%s, %s) (* %s *)" % (blist(n), MECH_FUNCS[f], n) for n, f in mechs) + "].")
    # --- the three state handlers
    for fname, dname in (("handle_server_state_waiting_for_auth", "disp_waiting_for_auth"),
                         ("handle_server_state_waiting_for_data", "disp_waiting_for_data"),
                         ("handle_server_state_waiting_for_begin", "disp_waiting_for_begin")):
        table, default = parse_switch(src, fname)
        arms = []
        for c in ["CAuth", "CCancel", "CData", "CBegin", "CRejected", "COk", "CError", "CUnknown", "CNegotiateFd", "CAgreeFd"]:
            arms.append("  | %s => %s" % (c, table.get(c, default)))
        out.append("Definition %s (c : cmd) : action :=\n  match c with\n%s\n  end." % (dname, "\n".join(arms)))
    # --- words emitted by the server
    words = {
        "str_REJECTED": literal_in(src, "send_rejected", r'_dbus_string_append \(&command,\s*"(REJECTED)"\)', "REJECTED literal"),
        "str_OK_sp": literal_in(src, "send_ok", r'_dbus_string_append \(&auth->outgoing, "(OK )"\)', "OK literal"),
        "str_DATA_crlf": literal_in(src, "send_data", r'_dbus_string_append \(&auth->outgoing, "(DATA\\r\\n)"\)', "DATA literal"),
        "str_DATA_sp": literal_in(src, "send_data", r'_dbus_string_append \(&auth->outgoing, "(DATA )"\)', "DATA literal"),
        "str_AGREE_crlf": literal_in(src, "send_agree_unix_fd", r'"(AGREE_UNIX_FD\\r\\n)"', "AGREE_UNIX_FD literal"),
        "msg_invalid_hex": literal_in(src, "process_data", r'send_error \(auth, "([^"\\]*)"\)', "hex error message"),
        "msg_non_ascii": literal_in(src, "process_command", r'send_error \(auth, "([^"\\]*)"\)', "non-ASCII error message"),
        "default_context": literal_in(src, "_dbus_auth_new", r'_dbus_string_append \(&auth->context, "([^"\\]*)"\)', "default context"),
    }
    fmt = literal_in(src, "send_error", r'"(ERROR (?:[^"\\]|\\.)*)"', "ERROR format")
    if fmt.count("%s") != 1 or not fmt.endswith("\r\n"):
        raise Shape("send_error format has unexpected shape: %r" % fmt)
    words["str_ERROR_pre"], words["str_ERROR_post"] = fmt.split("%s")
    if literal_in(src, "send_rejected", r'_dbus_string_append \(&command, "(\\r\\n)"\)', "CRLF") != "\r\n":
        raise Shape("send_rejected does not end the line with CRLF")
    for k in sorted(words):
        out.append("Definition %s : bytes := %s. (* %s *)" % (k, blist(words[k]), re.sub(r"[^A-Za-z0-9_ ]", "?", words[k])))
    # --- numeric constants: the compiler evaluates them
    mf = re.search(r"server_auth->max_failures\s*=\s*([^;]+);", function_body(src, "_dbus_auth_server_new"))
    mb = re.search(r"^#define MAX_BUFFER\s+(.+)$", src, re.M)
    nc = re.search(r"^#define N_CHALLENGE_BYTES\s+(.+)$", src, re.M)
    if not (mf and mb and nc):
        raise Shape("max_failures / MAX_BUFFER / N_CHALLENGE_BYTES not found")
    gdir = os.path.join(os.path.dirname(build_dbus_dir), "gen")
    os.makedirs(gdir, exist_ok=True)
    cfile, exe = os.path.join(gdir, "gen_auth.c"), os.path.join(gdir, "gen_auth")
    with open(cfile, "w") as f:
        f.write('#include <config.h>\n#include <stdio.h>\n#include "dbus/dbus-internals.h"\n'
                'int main(void){ printf("%%lld %%lld %%lld\\n", (long long)(%s), (long long)(%s), (long long)(%s)); return 0; }\n'
                % (mf.group(1), mb.group(1), nc.group(1)))
    r = subprocess.run(["cc", "-w", "-I", repo, "-I", build_dbus_dir, "-DDBUS_COMPILATION", "-DHAVE_CONFIG_H", "-o", exe, cfile],
                       capture_output=True, text=True)
    if r.returncode != 0:
        raise Shape("constant program does not compile: " + r.stderr[-500:])
    vals = subprocess.run([exe], capture_output=True, text=True).stdout.split()
    if len(vals) != 3 or any(int(v) < 0 for v in vals):
        raise Shape("constant program printed %r" % vals)
    # --- keyring constants (dbus-keyring.c); MAX_KEYS_IN_FILE depends on the build configuration
    ksrc = open(os.path.join(repo, "dbus", "dbus-keyring.c"), encoding="utf-8", errors="replace").read()
    knames = ["NEW_KEY_TIMEOUT_SECONDS", "EXPIRE_KEYS_TIMEOUT_SECONDS", "MAX_TIME_TRAVEL_SECONDS", "MAX_KEYS_IN_FILE", "KEY_LENGTH_BYTES"]
    m1 = re.search(r"^#define NEW_KEY_TIMEOUT_SECONDS.*?^#define MAX_TIME_TRAVEL_SECONDS[^\n]*\n", ksrc, re.S | re.M)
    m2 = re.search(r"^#ifdef DBUS_ENABLE_EMBEDDED_TESTS\n#define MAX_KEYS_IN_FILE[^\n]*\n#else\n#define MAX_KEYS_IN_FILE[^\n]*\n#endif\n", ksrc, re.M)
    m3 = re.search(r"^#define KEY_LENGTH_BYTES[^\n]*\n", ksrc, re.M)
    if not (m1 and m2 and m3):
        raise Shape("keyring constants not found in dbus-keyring.c")
    defs = "\n".join(l for l in (m1.group(0) + m2.group(0) + m3.group(0)).split("\n") if l.startswith("#"))
    kfile, kexe = os.path.join(gdir, "gen_keyring.c"), os.path.join(gdir, "gen_keyring")
    with open(kfile, "w") as f:
        f.write('#include <config.h>\n#include <stdio.h>\n' + defs + '\nint main(void){ printf("' + " ".join(["%lld"] * len(knames)) + '\\n", '
                + ", ".join("(long long)(%s)" % n for n in knames) + "); return 0; }\n")
    r = subprocess.run(["cc", "-w", "-I", repo, "-I", build_dbus_dir, "-DDBUS_COMPILATION", "-DHAVE_CONFIG_H", "-o", kexe, kfile], capture_output=True, text=True)
    if r.returncode != 0:
        raise Shape("keyring constant program does not compile: " + r.stderr[-500:])
    kvals = subprocess.run([kexe], capture_output=True, text=True).stdout.split()
    if len(kvals) != len(knames) or any(int(v) <= 0 for v in kvals):
        raise Shape("keyring constant program printed %r" % kvals)
    for n, v in zip(knames, kvals):
        out.append("Definition %s : N := %s." % (n, v))
    out.append("Definition max_failures : N := %s." % vals[0])
    out.append("Definition MAX_BUFFER : N := %s." % vals[1])
    out.append("Definition N_CHALLENGE_BYTES : N := %s." % vals[2])
    return "AuthTables.v", "\n".join(out) + "\n"


if __name__ == "__main__":
    import sys
    print(generate(os.environ.get("VERIF_REPO", "/repo"), os.path.dirname(os.path.dirname(os.path.dirname(os.path.abspath(__file__)))),
                   "/verif/build/dbus")[1])
