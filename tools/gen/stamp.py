"""Generator for coq/Gen/StampTables.v (package `stamp`, property C03).

Lifted from /repo on every run and given meaning by the C compiler:
  * the whole text of create_unique_client_name (bus/driver.c).  Its two function-local `static int`
    counters are hoisted to file scope (that is the only textual change) so that the function can be
    started from any counter state; BusRegistry is a stand-in holding a list of names and
    bus_registry_lookup a linear search.  The function is compiled with -fsanitize=undefined (signed
    overflow traps, as in the daemon under test) against the real DBusString of libdbus-internal.a and
    run on a list of (major, minor, registered names) states: fresh bus, ordinary state, registered names
    that force the skip loop, both ends of the int range, states violating the function's assertions
    -> cuc_samples (state before, result name and state after, or None when the process died);
  * INT_MAX as seen by that compiler -> c_int_max;
  * the string constants the bus stamps: DBUS_SERVICE_DBUS, and the literal passed to
    dbus_message_set_sender in the inactive branch of bus_dispatch -> c_service_dbus, c_not_active.
coq/Proofs/StampTie.v checks Stamp.mint / Stamp.drv_name / Stamp.not_active against these tables by
vm_compute, so a change of the C text breaks a proof.  The regexes only locate text; if the shape is not
the known one the generator raises (BROKEN TIE)."""
import os, re, subprocess


class Shape(Exception):
    pass


def function_text(src, header_re):
    m = re.search(header_re, src, re.M)
    if not m:
        raise Shape("function header %s not found" % header_re)
    i = src.index("{", m.end() - 1)
    depth = 0
    for j in range(i, len(src)):
        if src[j] == "{":
            depth += 1
        elif src[j] == "}":
            depth -= 1
            if depth == 0:
                return src[i:j + 1]
    raise Shape("unbalanced braces")


IMAX = 2147483647
# (major, minor, registered names)
SAMPLES = [
    (0, 0, []), (1, 1, []), (1, 5, []), (1, 5, [":1.5"]), (1, 5, [":1.5", ":1.6", ":1.7"]), (1, 5, [":1.6"]),
    (1, 9, [":1.9", "com.example.A", ":1.11"]), (1, 10, [":1.1"]), (1, 99, [":1.99", ":1.100"]),
    (5, 3, [":5.3", "foo", ":5.4"]), (1, 5, [":1.05", ":01.5", "1.5", ":1.5x"]),
    (1, IMAX - 1, []), (1, IMAX, []), (1, IMAX - 2, [":1.%d" % (IMAX - 2)]), (1, IMAX - 1, [":1.%d" % (IMAX - 1)]),
    (1, 0, []), (1, -5, []), (1, -IMAX - 1, []), (7, 0, [":8.0"]),
    (IMAX, 0, []), (IMAX - 1, 0, []), (IMAX, 4, []), (IMAX, IMAX - 1, []),
    (-3, 0, []), (-1, 0, []), (0, 7, []), (-2, 3, []),
]


def generate(repo, verif, build_dbus_dir):
    drv = open(os.path.join(repo, "bus", "driver.c"), encoding="utf-8", errors="replace").read()
    dsp = open(os.path.join(repo, "bus", "dispatch.c"), encoding="utf-8", errors="replace").read()
    body = function_text(drv, r"^create_unique_client_name\s*\(BusRegistry \*registry,\s*DBusString\s+\*str\)\s*\{")
    pat = r"static\s+int\s+next_major_number\s*=\s*0\s*;\s*static\s+int\s+next_minor_number\s*=\s*0\s*;"
    if len(re.findall(pat, body)) != 1:
        raise Shape("create_unique_client_name: the two static counters are not declared as known")
    body = re.sub(pat, "", body)
    if "static" in re.sub(r"/\*.*?\*/", "", body, flags=re.S) or "bus_registry_lookup" not in body:
        raise Shape("create_unique_client_name has an unknown shape")
    disp = function_text(dsp, r"^bus_dispatch\s*\(DBusConnection \*connection,\s*DBusMessage\s+\*message\)\s*\{")
    m = re.search(r"if \(bus_connection_is_active \(connection\)\)\s*\{\s*sender = bus_connection_get_name \(connection\);.*?"
                  r"dbus_message_set_sender \(message, sender\).*?\}\s*else\s*\{.*?dbus_message_set_sender \(message, (\"[^\"]*\")\)", disp, re.S)
    if not m:
        raise Shape("bus_dispatch: sender assignment not found in the known shape")
    not_active = m.group(1)
    samples = ",\n".join('  { %d, %s, { %s } }' % (a, ("(-2147483647 - 1)" if b == -IMAX - 1 else str(b)), ", ".join('"%s"' % n for n in names + []) + (", " if names else "") + "NULL")
                         for a, b, names in SAMPLES)
    prog = r'''
#include <config.h>
#include <stdio.h>
#include <string.h>
#include <limits.h>
#include <unistd.h>
#include <sys/wait.h>
#include <dbus/dbus-internals.h>
#include <dbus/dbus-string.h>
#include <dbus/dbus-shared.h>
typedef struct { const char *names[8]; } BusRegistry;
typedef struct BusService BusService;
static int next_major_number;
static int next_minor_number;
static BusService *
bus_registry_lookup (BusRegistry *registry, const DBusString *service_name)
{
  int i;
  for (i = 0; registry->names[i] != NULL; i++)
    if (strcmp (registry->names[i], _dbus_string_get_const_data (service_name)) == 0)
      return (BusService *) registry;
  return NULL;
}
static dbus_bool_t
create_unique_client_name (BusRegistry *registry, DBusString *str)
%s
static void pbytes (const char *s) { int i; printf ("["); for (i = 0; s[i]; i++) printf ("%%s%%d", i ? ";" : "", (unsigned char) s[i]); printf ("]"); }
static struct { int major, minor; BusRegistry reg; } samples[] = {
%s
};
int main (void)
{
  unsigned i; int k;
  printf ("Definition c_int_max : Z := (%%d)%%%%Z.\n", INT_MAX);
  printf ("Definition c_service_dbus : list N := "); pbytes (DBUS_SERVICE_DBUS); printf (".\n");
  printf ("Definition c_not_active : list N := "); pbytes (%s); printf (".\n");
  printf ("Definition cuc_samples : list ((Z * Z * list (list N)) * option (list N * Z * Z)) := [\n");
  for (i = 0; i < sizeof samples / sizeof samples[0]; i++)
    {
      int fds[2]; pid_t pid; int status; char buf[256]; ssize_t n; size_t got = 0;
      printf ("%%s (((%%d)%%%%Z, (%%d)%%%%Z, [", i ? ";\n" : "", samples[i].major, samples[i].minor);
      for (k = 0; samples[i].reg.names[k]; k++) { if (k) printf ("; "); pbytes (samples[i].reg.names[k]); }
      printf ("]), ");
      fflush (stdout);
      if (pipe (fds) != 0) return 2;
      pid = fork ();
      if (pid == 0)
        {
          DBusString s; FILE *o = fdopen (fds[1], "w"); const char *p; int j;
          close (fds[0]); close (2);
          next_major_number = samples[i].major; next_minor_number = samples[i].minor;
          if (!_dbus_string_init (&s) || !create_unique_client_name (&samples[i].reg, &s)) _exit (3);
          p = _dbus_string_get_const_data (&s);
          fprintf (o, "Some ([");
          for (j = 0; p[j]; j++) fprintf (o, "%%s%%d", j ? ";" : "", (unsigned char) p[j]);
          fprintf (o, "], (%%d)%%%%Z, (%%d)%%%%Z)", next_major_number, next_minor_number);
          fflush (o);
          _exit (0);
        }
      close (fds[1]);
      while ((n = read (fds[0], buf + got, sizeof buf - 1 - got)) > 0) got += n;
      buf[got] = 0;
      close (fds[0]);
      waitpid (pid, &status, 0);
      if (WIFEXITED (status) && WEXITSTATUS (status) == 0) printf ("%%s)", buf);
      else if (WIFEXITED (status) && WEXITSTATUS (status) == 3) return 2;
      else printf ("None)");
    }
  printf ("].\n");
  return 0;
}
''' % (body, samples, not_active)
    d = os.path.join(os.environ.get("VERIF_BUILD", os.path.join(verif, "build")), "gen")
    os.makedirs(d, exist_ok=True)
    src = os.path.join(d, "stamp_gen.c")
    exe = os.path.join(d, "stamp_gen")
    open(src, "w").write(prog)
    libdir = os.path.join(build_dbus_dir, "lib")
    r = subprocess.run(["cc", "-O0", "-w", "-fsanitize=address,undefined", "-fno-sanitize-recover=undefined", "-I", repo, "-I", build_dbus_dir,
                        "-DDBUS_COMPILATION", "-DHAVE_CONFIG_H", "-o", exe, src, os.path.join(libdir, "libdbus-internal.a"),
                        "-L" + libdir, "-ldbus-1", "-Wl,-rpath," + libdir, "-lpthread"], capture_output=True, text=True)
    if r.returncode != 0:
        raise Shape("lifted C text does not compile: " + r.stderr[-600:])
    env = dict(os.environ)
    env["UBSAN_OPTIONS"] = "halt_on_error=1:abort_on_error=1"
    env["ASAN_OPTIONS"] = "detect_leaks=0"
    env["DBUS_FATAL_WARNINGS"] = "0"
    r = subprocess.run([exe], capture_output=True, text=True, timeout=60, env=env)
    if r.returncode != 0:
        raise Shape("generator program failed: " + (r.stdout + r.stderr)[-300:])
    text = ("(* GENERATED by tools/gen/stamp.py from /repo (bus/driver.c, bus/dispatch.c) -- do not edit *)\n"
            "From Coq Require Import List NArith ZArith.\nImport ListNotations.\nLocal Open Scope N_scope.\n\n" + r.stdout)
    return "StampTables.v", text
