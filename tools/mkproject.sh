#!/bin/sh
# regenerate coq/_CoqProject from the .v files present (order is irrelevant: coqdep sorts)
cd "$(dirname "$0")/../coq"
{ echo "-Q . DV"; find . -name '*.v' | sed 's#^\./##' | sort; } > _CoqProject.new
if ! cmp -s _CoqProject.new _CoqProject 2>/dev/null; then mv _CoqProject.new _CoqProject; else rm _CoqProject.new; fi
