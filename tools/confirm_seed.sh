#!/bin/sh
# usage: tools/confirm_seed.sh <ID> <dir with patch.diff, run_demo.sh, demo.*, meta.json>
# Confirms a seeded defect independently: compiles, existing suite passes, demo fails with / passes without the change.
# Writes /verif/seeded/<ID>/{patch.diff,demo files,meta.json,confirm.txt}.  Scratch trees under /tmp are removed.
set -u
id=$1; src=$(readlink -f "$2")
out=/verif/seeded/$id
mkdir -p "$out"
cp "$src"/* "$out"/ 2>/dev/null
wt=/tmp/confirm_$id; bd=/tmp/confirm_${id}_build; base=/tmp/confirm_base_build
log="$out/confirm.txt"
: > "$log"
CM="-DCMAKE_BUILD_TYPE=Debug -DDBUS_BUILD_TESTS=ON -DDBUS_WITH_GLIB=OFF -DDBUS_ENABLE_DOXYGEN_DOCS=OFF -DDBUS_ENABLE_XML_DOCS=OFF -DDBUS_BUILD_X11=OFF -DENABLE_SYSTEMD=OFF"
# unchanged build, shared between confirmations (rebuilt if /repo HEAD moved)
head=$(git -C /repo rev-parse HEAD)
( flock 9
  if [ ! -f $base/.head ] || [ "$(cat $base/.head)" != "$head" ]; then
    rm -rf $base /tmp/confirm_base; git -C /repo worktree prune
    git -C /repo worktree add -q --detach /tmp/confirm_base HEAD
    cmake -G Ninja -S /tmp/confirm_base -B $base $CM >/dev/null 2>&1 && ninja -C $base >/dev/null 2>&1 && echo "$head" > $base/.head
  fi ) 9>/tmp/confirm_base.lock
git -C /repo worktree remove --force $wt >/dev/null 2>&1; rm -rf $wt $bd
git -C /repo worktree add -q --detach $wt HEAD || exit 2
if ! git -C $wt apply "$out/patch.diff"; then echo "patch does not apply" >> "$log"; exit 2; fi
if cmake -G Ninja -S $wt -B $bd $CM >/dev/null 2>&1 && ninja -C $bd > $bd.ninja.log 2>&1; then echo "compiles: yes" >> "$log"; else echo "compiles: NO" >> "$log"; tail -5 $bd.ninja.log >> "$log"; fi
( cd "$out" && sh ./run_demo.sh $base > /tmp/confirm_${id}_demo_base.txt 2>&1 ); echo "demo on unchanged tree: exit $? (want 0)" >> "$log"
( cd "$out" && sh ./run_demo.sh $bd > /tmp/confirm_${id}_demo_mut.txt 2>&1 ); echo "demo on changed tree: exit $? (want non-zero)" >> "$log"
tail -3 /tmp/confirm_${id}_demo_mut.txt >> "$log"
if [ "${SKIP_CTEST:-0}" != 1 ]; then
  ctest --test-dir $bd -j6 --timeout 900 > /tmp/confirm_${id}_ctest.txt 2>&1; echo "ctest on changed tree: exit $?" >> "$log"
  grep -E "tests passed|tests failed|Failed|\*\*\*" /tmp/confirm_${id}_ctest.txt | head -8 >> "$log"
fi
git -C /repo worktree remove --force $wt >/dev/null 2>&1; rm -rf $wt $bd $bd.ninja.log /tmp/confirm_${id}_*.txt
git -C /repo worktree prune
cat "$log"
