"""Shared machinery for all checks: build steps, model/implementation runners,
Coq obligation accounting, evidence and verdict plumbing."""
import fcntl, glob, hashlib, json, os, random, re, shutil, subprocess, sys, tempfile, time

VERIF = os.path.dirname(os.path.dirname(os.path.abspath(__file__)))
REPO = os.environ.get("VERIF_REPO", "/repo")
BUILD = os.environ.get("VERIF_BUILD", os.path.join(VERIF, "build"))
DBUS_BUILD = os.path.join(BUILD, "dbus")
COQ = os.path.join(VERIF, "coq")
NPROC = os.cpu_count() or 4
GUARD = "FREEDESKTOP_DBUS_VERIF"
COQC_FILE_TIMEOUT = int(os.environ.get("VERIF_COQC_TIMEOUT", "420"))

CFLAGS = ["-O1", "-g", "-fsanitize=address,undefined", "-fno-sanitize-recover=undefined", "-fno-omit-frame-pointer",
          "-DDBUS_COMPILATION", "-DHAVE_CONFIG_H", "-D_GNU_SOURCE", "-D" + GUARD, "-w"]

ALLOWED_AXIOMS = {
    # standard-library axioms that may appear (named in DESIGN.md section 2)
    "functional_extensionality_dep", "FunctionalExtensionality.functional_extensionality_dep",
    "Eqdep.Eq_rect_eq.eq_rect_eq", "eq_rect_eq", "JMeq_eq", "JMeq.JMeq_eq",
    "proof_irrelevance", "ProofIrrelevance.proof_irrelevance", "Classical_Prop.classic", "classic",
    "propositional_extensionality", "PropExtensionality.propositional_extensionality",
}


def log(msg):
    print("[verif] " + msg, flush=True)


def sh(cmd, timeout=None, cwd=None, env=None, input=None, check=False):
    r = subprocess.run(cmd, cwd=cwd, env=env, input=input, capture_output=True, text=True, timeout=timeout)
    if check and r.returncode != 0:
        raise RuntimeError("command failed: %s\n%s\n%s" % (cmd, r.stdout[-3000:], r.stderr[-3000:]))
    return r


class Lock:
    """Serialises the shared build steps between concurrently running checks."""

    def __init__(self, name="build"):
        os.makedirs(BUILD, exist_ok=True)
        self.path = os.path.join(BUILD, "." + name + ".lock")

    def __enter__(self):
        self.f = open(self.path, "w")
        fcntl.flock(self.f, fcntl.LOCK_EX)
        return self

    def __exit__(self, *a):
        fcntl.flock(self.f, fcntl.LOCK_UN)
        self.f.close()


# --------------------------------------------------------------------------
# build steps
# --------------------------------------------------------------------------
CMAKE_OPTS = ["-DCMAKE_BUILD_TYPE=Debug", "-DDBUS_BUILD_TESTS=ON", "-DDBUS_WITH_GLIB=OFF", "-DDBUS_ENABLE_DOXYGEN_DOCS=OFF",
              "-DDBUS_ENABLE_XML_DOCS=OFF", "-DDBUS_BUILD_X11=OFF", "-DENABLE_SYSTEMD=OFF", "-DDBUS_ENABLE_VERBOSE_MODE=ON",
              "-DCMAKE_C_FLAGS=-Wno-error -O1 -g -fsanitize=address,undefined -fno-sanitize-recover=undefined "
              "-fno-omit-frame-pointer -D" + GUARD]
DBUS_TARGETS = ["lib/libdbus-internal.a", "lib/libdbus-daemon-internal.a", "bin/dbus-daemon", "bin/dbus-daemon-launch-helper",
                "lib/liblaunch-helper-internal.a", "bin/dbus-daemon-launch-helper-for-tests"]


class BuildBroken(Exception):
    def __init__(self, stage, detail):
        Exception.__init__(self, stage + ": " + detail[-1500:])
        self.stage = stage
        self.detail = detail


def build_dbus():
    """(Re)build /repo's working tree, sanitizers + assertions + hooks on, into /verif/build/dbus."""
    if not os.path.exists(os.path.join(DBUS_BUILD, "build.ninja")):
        os.makedirs(DBUS_BUILD, exist_ok=True)
        r = sh(["cmake", "-G", "Ninja", "-S", REPO, "-B", DBUS_BUILD] + CMAKE_OPTS, timeout=600)
        if r.returncode != 0:
            raise BuildBroken("cmake", r.stdout + r.stderr)
    r = sh(["ninja", "-C", DBUS_BUILD] + DBUS_TARGETS, timeout=1200)
    if r.returncode != 0:
        # target set may differ in a changed tree; retry with the core targets only
        r = sh(["ninja", "-C", DBUS_BUILD] + DBUS_TARGETS[:5], timeout=1200)
        if r.returncode != 0:
            raise BuildBroken("ninja", r.stdout + r.stderr)


def gen_tables():
    r = sh([sys.executable, os.path.join(VERIF, "tools", "gen_tables.py")], timeout=300)
    if r.returncode != 0:
        raise BuildBroken("gen_tables", r.stdout + r.stderr)
    return "(changed)" in r.stdout


def coq_make(targets=None, keep_going=True):
    """Full .vo build (no -vos).  Returns (ok, log).  With keep_going, model files still get built when a proof breaks."""
    sh(["sh", os.path.join(VERIF, "tools", "mkproject.sh")], check=True)
    if not os.path.exists(os.path.join(COQ, "Makefile")) or \
            os.path.getmtime(os.path.join(COQ, "Makefile")) < os.path.getmtime(os.path.join(COQ, "_CoqProject")):
        sh(["coq_makefile", "-f", "_CoqProject", "-o", "Makefile"], cwd=COQ, check=True)
    # per-file limit so that one runaway proof cannot hold the shared build lock for long
    cmd = ["timeout", "1500", "make", "-j%d" % NPROC, "COQC=timeout %d coqc" % COQC_FILE_TIMEOUT] + (["-k"] if keep_going else []) + (targets or [])
    r = sh(cmd, cwd=COQ, timeout=1600)
    return r.returncode == 0, r.stdout + r.stderr


def build_ml(pkg="wire"):
    """Compile the extracted model of one package (coq/model_<pkg>.ml + ml/<pkg>/*.ml) into build/ml/<pkg>/model."""
    d = os.path.join(BUILD, "ml", pkg)
    os.makedirs(d, exist_ok=True)
    ext = [os.path.join(COQ, "model_%s.ml" % pkg), os.path.join(COQ, "model_%s.mli" % pkg)]
    for e in ext:
        if not os.path.exists(e):
            raise BuildBroken("extraction", "missing %s (does coq/Extract/Extract%s.v compile?)" % (e, pkg.capitalize()))
    own = sorted(glob.glob(os.path.join(VERIF, "ml", pkg, "*.ml")))
    srcs = ext + own
    h = hashlib.sha256()
    for s in srcs:
        h.update(open(s, "rb").read())
    stamp = os.path.join(d, "stamp")
    exe = os.path.join(d, "model")
    if os.path.exists(exe) and os.path.exists(stamp) and open(stamp).read() == h.hexdigest():
        return exe
    for s in srcs:
        shutil.copy(s, d)
    names = [os.path.basename(x) for x in own if os.path.basename(x) != "main.ml"]
    r = sh(["ocamlfind", "ocamlopt", "-O3", "-w", "-a", "-o", "model", "model_%s.mli" % pkg, "model_%s.ml" % pkg] + names + ["main.ml"], cwd=d, timeout=600)
    if r.returncode != 0:
        raise BuildBroken("ocaml " + pkg, r.stdout + r.stderr)
    open(stamp, "w").write(h.hexdigest())
    return exe


def build_harness(name, extra_libs=()):
    """Compile harness/c/<name>.c against the freshly built libs."""
    src = os.path.join(VERIF, "harness", "c", name + ".c")
    exe = os.path.join(BUILD, name)
    libdir = os.path.join(DBUS_BUILD, "lib")
    libs = [os.path.join(libdir, l) for l in extra_libs] + [os.path.join(libdir, "libdbus-internal.a")]
    deps = [src, os.path.join(VERIF, "harness", "c", "common.h")] + libs + [os.path.join(libdir, "libdbus-1.so.3")]
    if os.path.exists(exe) and all(os.path.getmtime(exe) >= os.path.getmtime(d) for d in deps if os.path.exists(d)):
        return exe
    cmd = ["cc"] + CFLAGS + ["-I", REPO, "-I", DBUS_BUILD, "-I", os.path.join(REPO, "bus"), "-o", exe, src] + libs + \
          ["-L" + libdir, "-ldbus-1", "-Wl,-rpath," + libdir, "-lpthread", "-lexpat"]
    r = sh(cmd, timeout=600)
    if r.returncode != 0:
        raise BuildBroken("harness " + name, r.stdout + r.stderr)
    return exe


def prepare(harnesses=(), mls=("wire",)):
    """Everything a check needs, rebuilt incrementally from /repo's working tree."""
    t0 = time.time()
    info = {}
    with Lock():
        build_dbus()
        info["tables_changed"] = gen_tables()
        ok, out = coq_make()
        info["coq_ok"] = ok
        info["coq_log"] = out
        for m in mls:
            info["model_" + m] = build_ml(m)
        if mls:
            info["model"] = info["model_" + mls[0]]
        for h in harnesses:
            if isinstance(h, (tuple, list)):
                h, extra = h[0], tuple(h[1])
            else:
                extra = ("libdbus-daemon-internal.a",) if h.startswith("bus") else ()
            info[h] = build_harness(h, extra)
        info["daemon"] = os.path.join(DBUS_BUILD, "bin", "dbus-daemon")
    info["prepare_s"] = round(time.time() - t0, 1)
    return info


# --------------------------------------------------------------------------
# Coq obligations
# --------------------------------------------------------------------------
def coq_closure(vfile):
    """Files of this development that vfile depends on (transitively), via coqdep."""
    seen, todo = [], [vfile]
    while todo:
        f = todo.pop()
        if f in seen:
            continue
        seen.append(f)
        r = sh(["coqdep", "-Q", ".", "DV", f], cwd=COQ)
        for tok in r.stdout.replace("\\\n", " ").split():
            if tok.endswith(".vo") and not tok.startswith("/"):
                v = tok[:-1]
                if os.path.exists(os.path.join(COQ, v)) and v not in seen:
                    todo.append(v)
    return sorted(seen)


FORBIDDEN = re.compile(r"\b(Admitted|admit|Axiom|Axioms|Parameter|Parameters|Conjecture|Conjectures|Abort All)\b|Unset\s+Guard|bypass_check|Admit Obligations|-type-in-type|Unset Universe Checking|Unset Positivity")


def scan_forbidden(files):
    bad = []
    for f in files:
        depth = 0
        txt = open(os.path.join(COQ, f)).read()
        txt = re.sub(r"\(\*.*?\*\)", lambda m: " " * 0, txt, flags=re.S)
        for ln, line in enumerate(txt.split("\n"), 1):
            if re.match(r"\s*Section\b", line):
                depth += 1
            elif re.match(r"\s*End\b", line) and depth > 0:
                depth -= 1
            if FORBIDDEN.search(line):
                bad.append("%s:%d: %s" % (f, ln, line.strip()))
            if depth == 0 and re.match(r"\s*(Variable|Variables|Hypothesis|Hypotheses|Context)\b", line):
                bad.append("%s:%d: %s (outside a section)" % (f, ln, line.strip()))
    return bad


def count_obligations(files):
    n = 0
    names = []
    for f in files:
        if f.startswith("Gen/"):
            continue
        txt = open(os.path.join(COQ, f)).read()
        for m in re.finditer(r"^\s*(Theorem|Lemma|Corollary|Example|Fact|Proposition)\s+([A-Za-z0-9_']+)", txt, re.M):
            n += 1
            names.append(m.group(2))
    return n, names


def check_props(prop_id, theorems):
    """Re-run coqc on Props/<id>.v, collect Print Assumptions, confirm the named theorems exist.
    Returns dict(ok, missing, axioms, broken_files, log)."""
    vfile = "Props/%s.v" % prop_id
    files = coq_closure(vfile)
    res = {"files": files, "missing": [], "axioms": [], "broken": [], "forbidden": scan_forbidden(files)}
    for f in files:
        if not os.path.exists(os.path.join(COQ, f + "o")) or os.path.getmtime(os.path.join(COQ, f + "o")) < os.path.getmtime(os.path.join(COQ, f)):
            res["broken"].append(f)
    nobl, names = count_obligations(files)
    res["obligations"] = nobl
    if res["broken"]:
        # find first failing lemma from a direct coqc of the first broken file in dependency order
        for f in files_in_dep_order(res["broken"]):
            r = sh(["timeout", "600", "coqc", "-Q", ".", "DV", f], cwd=COQ)
            if r.returncode != 0:
                res["first_error"] = (f, (r.stdout + r.stderr)[-1500:])
                res["broken_lemma"] = lemma_at_error(f, r.stdout + r.stderr)
                break
        res["ok"] = False
        res["discharged"] = 0
        return res
    r = sh(["timeout", "600", "coqc", "-Q", ".", "DV", vfile], cwd=COQ)
    out = r.stdout + r.stderr
    res["log"] = out[-3000:]
    if r.returncode != 0:
        res["ok"] = False
        res["broken"].append(vfile)
        res["first_error"] = (vfile, out[-1500:])
        res["discharged"] = 0
        return res
    txt = open(os.path.join(COQ, vfile)).read()
    for t in theorems:
        if not re.search(r"^\s*(Theorem|Lemma|Example)\s+%s\b" % re.escape(t), txt, re.M):
            res["missing"].append(t)
    # axioms reported by Print Assumptions
    ax = []
    for block in re.findall(r"Axioms:\n((?:.+\n?)+?)(?=\n\S|\Z)", out):
        for m in re.finditer(r"^([A-Za-z0-9_.']+)\s*:", block, re.M):
            ax.append(m.group(1))
    res["axioms"] = sorted(set(ax))
    res["closed_count"] = out.count("Closed under the global context")
    bad_ax = [a for a in res["axioms"] if a not in ALLOWED_AXIOMS and a.split(".")[-1] not in ALLOWED_AXIOMS]
    res["bad_axioms"] = bad_ax
    res["ok"] = not res["missing"] and not bad_ax and not res["forbidden"]
    res["discharged"] = nobl if res["ok"] else 0
    return res


def files_in_dep_order(files):
    order = [l.strip() for l in open(os.path.join(COQ, "_CoqProject")) if l.strip().endswith(".v")]
    return sorted(files, key=lambda f: order.index(f) if f in order else 10 ** 6)


def lemma_at_error(f, out):
    m = re.search(r'line (\d+), characters', out)
    if not m:
        return None
    ln = int(m.group(1))
    lines = open(os.path.join(COQ, f)).read().split("\n")
    for i in range(min(ln, len(lines)) - 1, -1, -1):
        mm = re.match(r"\s*(Theorem|Lemma|Corollary|Example|Fact|Definition|Fixpoint)\s+([A-Za-z0-9_']+)", lines[i])
        if mm:
            return mm.group(2)
    return None


# --------------------------------------------------------------------------
# running model and implementation on line-oriented case files
# --------------------------------------------------------------------------
def run_lines(exe, lines, timeout=1800, env=None, shards=None):
    """Feed lines to exe (one result line per input line).  Sharded across cores.
    Returns (results, crashes) where crashes is a list of (line, stderr) for inputs after which the process died."""
    if not lines:
        return [], []
    shards = shards or min(NPROC, max(1, len(lines) // 2000))
    size = (len(lines) + shards - 1) // shards
    procs = []
    e = dict(os.environ)
    e["ASAN_OPTIONS"] = "detect_leaks=0:abort_on_error=0:exitcode=99:allocator_may_return_null=1"
    e["UBSAN_OPTIONS"] = "print_stacktrace=1:halt_on_error=1"
    e["DBUS_FATAL_WARNINGS"] = "0"
    if env:
        e.update(env)
    tmpd = tempfile.mkdtemp(prefix="verif_run_")
    try:
        for i in range(shards):
            chunk = lines[i * size:(i + 1) * size]
            if not chunk:
                continue
            inp = os.path.join(tmpd, "in%d" % i)
            with open(inp, "w") as f:
                f.write("\n".join(chunk) + "\n")
            fo = open(os.path.join(tmpd, "out%d" % i), "w")
            fe = open(os.path.join(tmpd, "err%d" % i), "w")
            p = subprocess.Popen([exe], stdin=open(inp), stdout=fo, stderr=fe, env=e)
            procs.append((p, chunk, i, fo, fe))
        results, crashes = [], []
        for p, chunk, i, fo, fe in procs:
            try:
                p.wait(timeout=timeout)
            except subprocess.TimeoutExpired:
                p.kill()
                p.wait()
            fo.close()
            fe.close()
            out = open(os.path.join(tmpd, "out%d" % i)).read().split("\n")
            if out and out[-1] == "":
                out.pop()
            if len(out) < len(chunk) or p.returncode != 0:
                err = open(os.path.join(tmpd, "err%d" % i), errors="replace").read()[-4000:]
                k = min(len(out), len(chunk) - 1)
                crashes.append((chunk[k], "exit=%s\n%s" % (p.returncode, err)))
                out = out[:k] + ["!CRASH"] * (len(chunk) - k)
            results.extend(out[:len(chunk)])
        return results, crashes
    finally:
        shutil.rmtree(tmpd, ignore_errors=True)


def run_one(exe, line, timeout=60, env=None):
    res, crashes = run_lines(exe, [line], timeout=timeout, env=env, shards=1)
    return res[0], crashes


# --------------------------------------------------------------------------
# known findings, verdicts, evidence
# --------------------------------------------------------------------------
def load_known(prop_id):
    p = os.path.join(VERIF, "known-findings.json")
    if not os.path.exists(p):
        return []
    return [e for e in json.load(open(p)) if e.get("property") == prop_id and e.get("status") == "known"]


class Report:
    def __init__(self, prop_id, tier, seed, level="proof"):
        self.id, self.tier, self.seed, self.level = prop_id, tier, seed, level
        self.t0 = time.time()
        self.violations = []      # (what, replay_obj, found_input: bool)
        self.known_hits = {}      # finding id -> (what, count, sample)
        self.coverage = {}
        self.assumptions = []

    def violation(self, what, replay, found_input=True):
        self.violations.append((what, replay, found_input))

    def known(self, finding, sample):
        fid = finding["id"]
        if fid not in self.known_hits:
            self.known_hits[fid] = [finding, 0, sample]
        self.known_hits[fid][1] += 1

    def finish(self):
        os.makedirs(os.path.join(VERIF, "evidence"), exist_ok=True)
        os.makedirs(os.path.join(VERIF, "replays"), exist_ok=True)
        for fid, (finding, cnt, sample) in sorted(self.known_hits.items()):
            print("KNOWN-FINDING: property=%s %s: %s (seen on %d cases, e.g. %s)" % (self.id, fid, finding["what"], cnt, json.dumps(sample)[:200]))
        rc = 0
        seen = set()
        for i, (what, replay, found) in enumerate(self.violations):
            key = what[:80]
            if key in seen and i >= 5:
                continue
            seen.add(key)
            path = os.path.join(VERIF, "replays", "%s_%s_%d.json" % (self.id, self.tier, i))
            with open(path, "w") as f:
                json.dump({"property": self.id, "what": what, "replay": replay, "failing_input_found": found,
                           "seed": self.seed, "tier": self.tier}, f, indent=1, default=str)
            print("VIOLATION property=%s replay=%s%s" % (self.id, path, "" if found else " no-failing-input-found"))
            print("  " + what[:500])
            rc = 1
            if i >= 9:
                break
        ev = {"property_id": self.id, "tier": self.tier, "seed": self.seed, "level": self.level,
              "coverage": self.coverage, "assumptions": self.assumptions,
              "wall_s": round(time.time() - self.t0, 2), "violations": len(self.violations)}
        # a --replay run covers one case: it must not overwrite the evidence of the real check
        name = self.id + (".replay.json" if getattr(self, "is_replay", False) else ".json")
        with open(os.path.join(VERIF, "evidence", name), "w") as f:
            json.dump(ev, f, indent=1, default=str)
        return rc


STANDING_TRUST = [
    "Coq 8.16.1 kernel (coqc); vm_compute used for finite sweeps; no native_compute",
    "tools/gen_tables.py (macro/constant/enum text lifted from /repo, given meaning by the C compiler)",
    "extraction: ExtrOcamlBasic only (bool, option, unit, list, prod, sumbool, sumor mapped; andb/orb inlined); no Extract Constant of our own",
    "ml/driver.ml + ml/main.ml (line parser/printer)", "C harnesses under harness/c, ASan+UBSan, cc, ocamlopt",
    "models are hand-written and tied to the C code by the correspondence run only",
]


def hexs(b):
    return bytes(b).hex() if len(b) else "-"
