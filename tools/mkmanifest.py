#!/usr/bin/env python3
"""Regenerates MANIFEST.json from the table below (single place to edit)."""
import json, os
V = os.path.dirname(os.path.dirname(os.path.abspath(__file__)))
TRUST = "trusted: Coq 8.16.1 kernel, tools/gen_tables.py, extraction (ExtrOcamlBasic only) + OCaml drivers, C/Python harnesses, sanitizers; models are hand-written and tied to the code by generated tables and the correspondence run"
CHECKS = {
 "C01": ("proof", "Coq theorems on the loader model: COMPLETENESS (C01_complete: the canonical serialisation of every well-formed abstract message, followed by any bytes, is framed, validated and queued exactly; C01_value_complete_partial / C01_body_complete_partial: the model of validate_body_helper accepts every encoded well-formed value incl. the fixed-array fast path), framing (termination, conservation of bytes, accepted => validated, message = announced prefix, size limits); CHARACTERISATION (C01_characterisation: for a framed buffer the loader model accepts EXACTLY the canonical encodings of loosely well-formed messages, wf_msg_x = wf_msg with the three recorded deviations built in, C01_wellformed_iff; C01_loader_vs_decoder: both directions against the independent specification decoder; C01_decoder_iff: that decoder accepts exactly the encodings of well-formed messages), no wire-level side premises remain (Proofs/WireClean*.v); SOUNDNESS (C01_sound, C01_sound_decodes, C01_value_sound: whatever the loader model accepts is the canonical serialisation of an abstract message that the specification decoder returns, well-formed except in exactly the three recorded classes F2, F11, FD65, each refuted by a witness); the tie of the C loader to the model and memory safety of the C code are decided by correspondence: implementation, extracted model and the extracted specification decoder run on every generated case (structured valid messages, every single-byte corruption at every offset, boundary cases) incl. accessor dumps, under ASan/UBSan",
         "Coq proof (loader model accepts exactly the canonical encodings: completeness, soundness, characterisation iff; framing) + differential correspondence with the extracted specification decoder as oracle"),
 "C02": ("proof", "model of construction = abstract message (Wire.HeaderEdit.build) + the specification encoder; Coq theorems: the encoder/decoder ROUND TRIP at value and body level for every byte order, position and nesting (C02_value_roundtrip, C02_body_roundtrip: numbers, strings, arrays, structs, dict entries, variants) and its CONVERSE (C02_value_decode_encode, C02_body_decode_encode, C02_message_decode_encode: whatever the decoder returns re-encodes to exactly the consumed bytes and is well formed, so encode/decode are mutually inverse bijections), plus the abstract laws (signature field, byte-order conversion changes no value and is involutive, copy = equal message with serial 0); and at MESSAGE level (C02_roundtrip: spec decoder of the canonical serialisation of any well-formed abstract message = that message, either byte order, any field order); the DBusTypeWriter is tied to the encoder per generated program: implementation bytes = extracted spec encoder bytes, spec decoder accepts them with identical re-encoding, reparse dump identical, re-marshal byte-identical, other-byte-order encoding read back through the iterator; the signature print/parse premises inside wf_msg are discharged for all well-formed types (C02_variant_wellformed, C16_signature_print_parse)",
         "Coq proof (round trip in both directions at value, body and message level; abstract laws) + byte-exact differential against the extracted specification encoder/decoder"),
 "C12": ("proof", "Coq theorems on the abstract header editor (read-back, deletion, all other fields keep value/presence/relative order, strip removes exactly the unknown fields, flags/serial/type/signature/body untouched for every edit sequence) and on re-serialisation (C12_fields_reserialise: the encoded field array of any well-formed field list decodes back to exactly that list); the byte-level C code is tied to the model by comparing the serialised bytes after every edit on generated messages in both byte orders with shuffled and unknown fields; and C12_wellformed: the re-serialisation of any well-formed edited message decodes to exactly that message",
         "Coq proof (editor laws) + byte-exact differential after every edit"),
 "C11": ("proof", "Coq theorem, unconditional (C11_chunking): for every stream and every partition the loader model produces the same messages and the same corruption verdict as for the unsplit stream; it rests on the proved locality of load_message on complete messages (C11_load_message_local, from locality lemmas for the whole body-validator model); also: framing reads only the fixed header, nothing after corruption, conservation of bytes; the loader's READ LIMIT while descriptors are pending (_dbus_message_loader_get_buffer slow path) is modelled and proved: never 0 (C11_limit_progress), ends exactly at the fixed header / at the end of the message in progress (C11_limit_boundary), the transport loop under the limit terminates (C11_limited_total) and produces the same outcome as unlimited reading (C11_limited_equiv); the C loader and the socket transport (handshake boundary, descriptor-carrying messages written in pieces) are tied by running every case chunked and unsplit, with the limits asked for compared to the model",
         "Coq proof (induction over chunks with a stability lemma) + chunked/unsplit differential"),
 "C16": ("proof", "Coq theorems: the scanner models (character tables regenerated from the C macros) decide exactly the specification grammars for every byte string (interface, error name, member, path, well-known bus names; exact characterisation + refutation for unique names); UTF-8: model = Unicode Table 3-7 without NUL for every byte string (C16_utf8); signatures: the automaton model accepts exactly the grammar's strings and equals the specification whenever the grammar's array-nesting limit holds (C16_signature; F11 refuted as the only difference), printer/parser inverse; implementation tied to the model by ~1M enumerated cases",
         "Coq proof (model = grammar) + generated tables + exhaustive small-scope correspondence"),
}
props = [json.loads(l) for l in open(os.path.join(V, "properties.jsonl"))]
extra = os.path.join(V, "tools", "manifest_extra.json")
if os.path.exists(extra):
    for k, v in json.load(open(extra)).items():
        CHECKS[k] = tuple(v)
NA_REASON = "check not built yet in this round (planned, see DESIGN.md section 7)"
m = {"version": 1, "setup_cmd": "sh tools/setup.sh",
     "hooks": {"guard": "FREEDESKTOP_DBUS_VERIF",
               "enable": "checks build /repo out-of-tree into /verif/build/dbus with -DFREEDESKTOP_DBUS_VERIF in CMAKE_C_FLAGS (tools/vlib.py build_dbus); no hook commits are needed so far",
               "baseline_off_cmd": "cmake -G Ninja -S /repo -B /tmp/dbus_baseline_off -DDBUS_BUILD_TESTS=ON -DCMAKE_BUILD_TYPE=RelWithDebInfo && cmake --build /tmp/dbus_baseline_off && ctest --test-dir /tmp/dbus_baseline_off -j8 --timeout 900",
               "source_commits": [], "add_only": True},
     "engines": [{"name": "coq-model+correspondence", "path": "tools/check.py", "serves_properties": sorted(CHECKS),
                  "kind_free_text": "Coq 8.16 theorems about executable models; tables regenerated from the C source; extracted-model vs implementation differential with specification oracle"}],
     "checks": [], "not_applicable": [], "notes": "see DESIGN.md; known findings in known-findings.json"}
for p in props:
    pid = p["id"]
    if pid in CHECKS:
        cat, text, tech = CHECKS[pid][:3]
        m["checks"].append({"property_id": pid, "quick_cmd": "python3 tools/check.py %s --tier quick" % pid,
                            "thorough_cmd": "python3 tools/check.py %s --tier thorough" % pid,
                            "evidence_file": "evidence/%s.json" % pid, "replay_cmd_template": "python3 tools/check.py %s --replay {path}" % pid,
                            "engine": "coq-model+correspondence",
                            "level_claimed": {"category": cat, "text": text, "design_ref": "DESIGN.md section 4, " + pid},
                            "level_note": TRUST, "technique": tech})
    else:
        m["not_applicable"].append({"property_id": pid, "reason": NA_REASON})
json.dump(m, open(os.path.join(V, "MANIFEST.json"), "w"), indent=1)
print("MANIFEST.json: %d checks, %d not_applicable" % (len(m["checks"]), len(m["not_applicable"])))
