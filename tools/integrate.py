#!/usr/bin/env python3
"""Coordinator helper: merge notes/<ID>.findings.json into known-findings.json and register <ID> in tools/manifest_extra.json.
usage: tools/integrate.py <ID> "<level text>" "<technique>" """
import json, os, sys
V = os.path.dirname(os.path.dirname(os.path.abspath(__file__)))
pid, text, tech = sys.argv[1], sys.argv[2], sys.argv[3]
kfp = os.path.join(V, "known-findings.json")
kf = json.load(open(kfp))
for extra_id in [pid] + sys.argv[4:]:
    fp = os.path.join(V, "notes", extra_id + ".findings.json")
    if os.path.exists(fp):
        try:
            new = json.load(open(fp))
        except Exception as e:
            print("cannot parse", fp, e); new = []
        for e in new:
            if not any(x.get("property") == e.get("property") and x.get("id") == e.get("id") for x in kf):
                kf.append(e); print("merged finding", e.get("property"), e.get("id"), e.get("status"))
json.dump(kf, open(kfp, "w"), indent=1)
ep = os.path.join(V, "tools", "manifest_extra.json")
extra = json.load(open(ep)) if os.path.exists(ep) else {}
extra[pid] = ["proof", text, tech]
json.dump(extra, open(ep, "w"), indent=1)
os.system("python3 %s/tools/mkmanifest.py" % V)
