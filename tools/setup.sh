#!/bin/sh
# MANIFEST.setup_cmd: build the whole framework from files on disk (offline).
set -e
cd "$(dirname "$0")/.."
python3 - <<'PY'
import sys
sys.path.insert(0, "tools")
import vlib
info = vlib.prepare(("wire_h",))
print("setup: prepared in %ss, coq ok = %s" % (info["prepare_s"], info["coq_ok"]))
if not info["coq_ok"]:
    print(info["coq_log"][-3000:])
    sys.exit(1)
PY
