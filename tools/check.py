#!/usr/bin/env python3
"""Driver: tools/check.py <ID> [--tier quick|thorough] [--replay FILE]

Flow (same for every property): rebuild /repo's tree with hooks + sanitizers,
regenerate coq/Gen, full Coq build, confirm the property's theorems and their
Print Assumptions, build harnesses, run corpus + generated cases through the
implementation and the extracted model, diff, search for a failing input on any
disagreement or broken obligation, write evidence/<ID>.json."""
import argparse, importlib, json, os, sys, time, traceback
sys.path.insert(0, os.path.dirname(os.path.abspath(__file__)))
import vlib
from vlib import log


def main():
    ap = argparse.ArgumentParser()
    ap.add_argument("id")
    ap.add_argument("--tier", default=os.environ.get("VERIF_TIER", "quick"))
    ap.add_argument("--replay")
    a = ap.parse_args()
    seed = int(os.environ.get("VERIF_SEED", "1") or "1")
    pid = a.id.upper()
    plugin = importlib.import_module("props." + pid.lower())
    rep = vlib.Report(pid, a.tier, seed, level=getattr(plugin, "LEVEL", "proof"))
    rep.is_replay = bool(a.replay)
    try:
        info = vlib.prepare(getattr(plugin, "HARNESSES", ()), getattr(plugin, "MLS", ("wire",)))
    except vlib.BuildBroken as e:
        rep.coverage = {"explanation": "build of /repo or of the framework failed at stage %s" % e.stage,
                        "obligations": 1, "discharged": 0, "checker_cmd": "n/a", "trusted_base": vlib.STANDING_TRUST,
                        "evaluations": 1, "distinct_nontrivial": 2}
        rep.violation("cannot build (%s): %s" % (e.stage, e.detail[-800:]), {"stage": e.stage, "names": "build"}, found_input=False)
        return rep.finish()
    log("prepared in %.1fs (tables changed: %s, coq ok: %s)" % (info["prepare_s"], info["tables_changed"], info["coq_ok"]))
    proofs = vlib.check_props(pid, plugin.THEOREMS)
    ctx = {"info": info, "proofs": proofs, "tier": a.tier, "seed": seed, "rep": rep, "replay": a.replay}
    try:
        plugin.run(ctx)
    except Exception:
        tb = traceback.format_exc()
        rep.violation("check machinery raised an exception: " + tb[-1500:], {"names": "check.py exception"}, found_input=False)
    cov = rep.coverage
    cov.setdefault("obligations", proofs.get("obligations", 0) or 1)
    cov["discharged"] = proofs.get("discharged", 0)
    cov.setdefault("checker_cmd", "make -C coq (coqc 8.16.1, full .vo) ; coqc -Q . DV Props/%s.v (Print Assumptions)" % pid)
    cov["trusted_base"] = vlib.STANDING_TRUST + ["Print Assumptions for Props/%s.v: %s" % (
        pid, ("axioms " + ", ".join(proofs["axioms"])) if proofs.get("axioms") else "%d theorems 'Closed under the global context', no axioms" % proofs.get("closed_count", 0))]
    cov["property_theorems"] = plugin.THEOREMS
    cov["coq_files"] = proofs.get("files", [])
    cov["prepare_s"] = info["prepare_s"]
    if not proofs["ok"]:
        why = []
        if proofs.get("broken"):
            why.append("Coq files no longer compile: %s (first error in %s, lemma %s): %s" % (
                proofs["broken"], proofs.get("first_error", ("?", ""))[0], proofs.get("broken_lemma"), proofs.get("first_error", ("", ""))[1][-600:]))
        if proofs.get("missing"):
            why.append("property theorems missing from Props file: %s" % proofs["missing"])
        if proofs.get("bad_axioms"):
            why.append("unexpected axioms: %s" % proofs["bad_axioms"])
        if proofs.get("forbidden"):
            why.append("forbidden constructs: %s" % proofs["forbidden"][:5])
        found = [v for v in rep.violations if v[2]]
        if not found:
            # the plugin's targeted search (already run inside plugin.run when proofs are broken) found nothing
            rep.violation("proof obligations for %s no longer check: %s" % (pid, " | ".join(why)),
                          {"names": "theorem/obligation", "broken": proofs.get("broken"), "lemma": proofs.get("broken_lemma"),
                           "missing": proofs.get("missing"), "detail": why}, found_input=False)
    return rep.finish()


if __name__ == "__main__":
    sys.exit(main())
